//! RV32IM reference interpreter over the symbolic model (not over the
//! analyzer's parse): official semantics for every base instruction and the
//! official expansion of every pseudo-instruction, RARS-style environment
//! calls, traps for misaligned accesses, an activation stack.

use std::collections::{BTreeMap, HashMap};

use crate::model::*;

pub const TEXT_BASE: u32 = 0x0040_0000;
pub const DATA_BASE: u32 = 0x1001_0000;

#[derive(Clone, Debug)]
pub struct FlatIns {
    /// index into the model line list
    pub line: usize,
    pub ins: Ins,
    pub in_text: bool,
}

#[derive(Clone, Debug, Default)]
pub struct Flat {
    pub text: Vec<FlatIns>,
    /// label -> address
    pub labels: BTreeMap<String, u32>,
    /// label -> text index (code labels only)
    pub code_labels: BTreeMap<String, usize>,
    pub data: Vec<(u32, Vec<u8>)>,
    /// model line -> text index
    pub line_to_text: HashMap<usize, usize>,
}

pub fn addr_of(idx: usize) -> u32 {
    TEXT_BASE.wrapping_add(4 * idx as u32)
}

pub fn flatten(lines: &[Line]) -> Flat {
    let mut f = Flat::default();
    let mut in_text = true;
    let mut daddr = DATA_BASE;
    let mut pending: Vec<String> = vec![];
    for (li, l) in lines.iter().enumerate() {
        match l {
            Line::Label(n) => pending.push(n.clone()),
            Line::Ins(i) => {
                for n in pending.drain(..) {
                    f.labels.entry(n.clone()).or_insert(addr_of(f.text.len()));
                    f.code_labels.entry(n).or_insert(f.text.len());
                }
                f.line_to_text.insert(li, f.text.len());
                f.text.push(FlatIns {
                    line: li,
                    ins: i.clone(),
                    in_text,
                });
            }
            Line::Dir(d, ops) => {
                let emit = |f: &mut Flat, daddr: &mut u32, bytes: Vec<u8>| {
                    f.data.push((*daddr, bytes.clone()));
                    *daddr = daddr.wrapping_add(bytes.len() as u32);
                };
                match d.as_str() {
                    ".data" => in_text = false,
                    ".text" => in_text = true,
                    ".word" | ".half" | ".byte" | ".dword" | ".ascii" | ".asciz" | ".string"
                    | ".space" | ".align" => {
                        if d == ".align" {
                            if let Some(Opd::I(k)) = ops.first() {
                                let a = 1u32 << (*k as u32 & 7);
                                daddr = (daddr + a - 1) & !(a - 1);
                            }
                        }
                        // natural alignment of .word/.half as RARS does
                        if d == ".word" {
                            daddr = (daddr + 3) & !3;
                        }
                        if d == ".half" {
                            daddr = (daddr + 1) & !1;
                        }
                        for n in pending.drain(..) {
                            f.labels.entry(n).or_insert(daddr);
                        }
                        match d.as_str() {
                            ".word" | ".half" | ".byte" | ".dword" => {
                                let w = match d.as_str() {
                                    ".word" => 4,
                                    ".half" => 2,
                                    ".byte" => 1,
                                    _ => 8,
                                };
                                let mut bytes = vec![];
                                for o in ops {
                                    if let Opd::I(v) = o {
                                        bytes.extend_from_slice(&(*v as u64).to_le_bytes()[..w]);
                                    }
                                }
                                emit(&mut f, &mut daddr, bytes);
                            }
                            ".ascii" | ".asciz" | ".string" => {
                                if let Some(Opd::S(s)) = ops.first() {
                                    let mut b: Vec<u8> = s.bytes().collect();
                                    if d != ".ascii" {
                                        b.push(0);
                                    }
                                    emit(&mut f, &mut daddr, b);
                                }
                            }
                            ".space" => {
                                if let Some(Opd::I(k)) = ops.first() {
                                    emit(&mut f, &mut daddr, vec![0; (*k).clamp(0, 4096) as usize]);
                                }
                            }
                            _ => {}
                        }
                    }
                    _ => {}
                }
            }
            _ => {}
        }
    }
    // labels at the very end
    for n in pending.drain(..) {
        f.labels.entry(n.clone()).or_insert(addr_of(f.text.len()));
        f.code_labels.entry(n).or_insert(f.text.len());
    }
    f
}

/// RV32IM register-register ALU semantics (the reference for constant folding).
pub fn alu(op: &str, a: u32, b: u32) -> Option<u32> {
    let (sa, sb) = (a as i32, b as i32);
    Some(match op {
        "add" => a.wrapping_add(b),
        "sub" => a.wrapping_sub(b),
        "and" => a & b,
        "or" => a | b,
        "xor" => a ^ b,
        "sll" => a << (b & 31),
        "srl" => a >> (b & 31),
        "sra" => (sa >> (b & 31)) as u32,
        "slt" => (sa < sb) as u32,
        "sltu" => (a < b) as u32,
        "mul" => a.wrapping_mul(b),
        "mulh" => (((sa as i64) * (sb as i64)) >> 32) as u32,
        "mulhsu" => (((sa as i64) * (b as u64 as i64)) >> 32) as u32,
        "mulhu" => (((a as u64) * (b as u64)) >> 32) as u32,
        "div" => {
            if b == 0 {
                u32::MAX
            } else if sa == i32::MIN && sb == -1 {
                a
            } else {
                (sa / sb) as u32
            }
        }
        "divu" => {
            if b == 0 {
                u32::MAX
            } else {
                a / b
            }
        }
        "rem" => {
            if b == 0 {
                a
            } else if sa == i32::MIN && sb == -1 {
                0
            } else {
                (sa % sb) as u32
            }
        }
        "remu" => {
            if b == 0 {
                a
            } else {
                a % b
            }
        }
        _ => return None,
    })
}

pub fn branch_taken(op: &str, a: u32, b: u32) -> Option<bool> {
    let (sa, sb) = (a as i32, b as i32);
    Some(match op {
        "beq" => a == b,
        "bne" => a != b,
        "blt" => sa < sb,
        "bge" => sa >= sb,
        "bltu" => a < b,
        "bgeu" => a >= b,
        "bgt" => sa > sb,
        "ble" => sa <= sb,
        "bgtu" => a > b,
        "bleu" => a <= b,
        _ => return None,
    })
}

/// RARS environment calls: (argument registers, result registers).
/// The table is the analyzer's own (assumption recorded in the evidence).
pub fn ecall_sig(n: i32) -> Option<(&'static [u8], &'static [u8])> {
    Some(match n {
        1 | 4 | 11 | 32 | 34 | 35 | 36 | 55 | 57 => (&[10], &[]),
        5 | 12 => (&[], &[10]),
        8 | 40 | 56 | 59 => (&[10, 11], &[]),
        9 | 41 | 43 | 50 => (&[10], &[10]),
        10 => (&[], &[]),
        17 | 42 | 1024 => (&[10, 11], &[10]),
        30 => (&[], &[10, 11]),
        31 | 33 => (&[10, 11, 12, 13], &[]),
        54 => (&[10, 11, 12], &[11]),
        62 | 63 | 64 => (&[10, 11, 12], &[10]),
        93 => (&[10], &[]),
        _ => return None,
    })
}

/// Every environment call of the table that does not end the program.
pub const NON_EXIT_ECALLS: [i64; 29] = [1, 4, 5, 8, 9, 11, 12, 17, 30, 31, 32, 33, 34, 35, 36, 40, 41, 42, 43, 50, 54, 55, 56, 57, 59, 62, 63, 64, 1024];

#[derive(Clone, Debug, PartialEq, Eq)]
pub enum Halt {
    Exit,
    FellOffEnd,
    Trap(String),
    Budget,
}

#[derive(Clone, Debug, PartialEq, Eq)]
pub enum Kind {
    Plain,
    Branch { taken: bool },
    Jump,
    Call { target: usize },
    Ret,
    IndirectJump,
    Ecall { num: i32, exits: bool },
}

#[derive(Clone, Debug)]
pub struct Step {
    /// text index of the executed instruction
    pub idx: usize,
    pub line: usize,
    pub kind: Kind,
    pub reads: u32,
    pub write: Option<(u8, u32)>,
    /// registers written by an environment call
    pub env_writes: Vec<(u8, u32)>,
    pub mem_read: Option<(u32, u8)>,
    pub mem_write: Option<(u32, u8, u32)>,
    /// next text index (None when the machine halted)
    pub next: Option<usize>,
    pub regs_before: [u32; 32],
    /// activation depth before the step
    pub depth: usize,
}

#[derive(Clone, Debug)]
pub struct Activation {
    /// text index of the first instruction of the callee
    pub entry: usize,
    /// text index the callee must return to
    pub ret_to: usize,
    /// text index of the call instruction
    pub call_site: usize,
    /// register file at entry (after the call wrote ra)
    pub entry_regs: [u32; 32],
    pub id: u64,
}

#[derive(Clone, Debug, serde::Serialize, serde::Deserialize)]
pub struct Inputs {
    pub regs: [u32; 32],
    pub mem_seed: u32,
    pub env: Vec<u32>,
}

impl Inputs {
    pub fn from_choices(ch: &mut crate::choice::Choices) -> Inputs {
        let mut regs = [0u32; 32];
        for (k, r) in regs.iter_mut().enumerate() {
            *r = if k == 0 { 0 } else { ch.word() };
        }
        // a plausible, word-aligned stack pointer far from text and data
        regs[SP as usize] = 0x7fff_0000u32.wrapping_add((ch.below(256) as u32) * 4);
        regs[RA as usize] = 0x0000_0004; // returning from main leaves the text
        let mem_seed = ch.raw();
        let n = 1 + ch.below(6);
        let env = (0..n).map(|_| ch.word()).collect();
        Inputs {
            regs,
            mem_seed,
            env,
        }
    }
}

pub struct Machine<'a> {
    pub flat: &'a Flat,
    pub regs: [u32; 32],
    pub pc: usize,
    mem: HashMap<u32, u8>,
    mem_seed: u32,
    env: Vec<u32>,
    env_pos: usize,
    pub csr: BTreeMap<String, u32>,
    pub steps: u64,
    pub halted: Option<Halt>,
    pub acts: Vec<Activation>,
    /// the outermost frame (main): registers at program start
    pub main_regs: [u32; 32],
    next_act: u64,
    pub budget: u64,
}

fn hash32(a: u32, b: u32) -> u32 {
    let mut x = a ^ b.rotate_left(16) ^ 0x9e37_79b9;
    x ^= x >> 16;
    x = x.wrapping_mul(0x85eb_ca6b);
    x ^= x >> 13;
    x = x.wrapping_mul(0xc2b2_ae35);
    x ^= x >> 16;
    x
}

impl<'a> Machine<'a> {
    pub fn new(flat: &'a Flat, inp: &Inputs, budget: u64) -> Self {
        let mut mem = HashMap::new();
        for (a, bytes) in &flat.data {
            for (k, b) in bytes.iter().enumerate() {
                mem.insert(a.wrapping_add(k as u32), *b);
            }
        }
        let mut regs = inp.regs;
        regs[0] = 0;
        Machine {
            flat,
            regs,
            pc: 0,
            mem,
            mem_seed: inp.mem_seed,
            env: inp.env.clone(),
            env_pos: 0,
            csr: BTreeMap::new(),
            steps: 0,
            halted: if flat.text.is_empty() {
                Some(Halt::FellOffEnd)
            } else {
                None
            },
            acts: vec![],
            main_regs: regs,
            next_act: 1,
            budget,
        }
    }

    pub fn load_byte(&self, a: u32) -> u8 {
        match self.mem.get(&a) {
            Some(b) => *b,
            None => (hash32(a, self.mem_seed) & 0xff) as u8,
        }
    }
    pub fn load(&self, a: u32, size: u8) -> u32 {
        let mut v = 0u32;
        for k in 0..size as u32 {
            v |= (self.load_byte(a.wrapping_add(k)) as u32) << (8 * k);
        }
        v
    }
    fn store(&mut self, a: u32, size: u8, v: u32) {
        for k in 0..size as u32 {
            self.mem.insert(a.wrapping_add(k), (v >> (8 * k)) as u8);
        }
    }
    fn next_env(&mut self) -> u32 {
        let v = self.env[self.env_pos % self.env.len()];
        self.env_pos += 1;
        v
    }

    /// registers at entry of the current activation
    pub fn frame_regs(&self) -> &[u32; 32] {
        match self.acts.last() {
            Some(a) => &a.entry_regs,
            None => &self.main_regs,
        }
    }
    /// Control reached a function entry without a call (jump, branch or fall-through): from here on
    /// "the value at entry to the enclosing function" means the value now.
    pub fn rebase_activation(&mut self) {
        let regs = self.regs;
        match self.acts.last_mut() {
            Some(a) => a.entry_regs = regs,
            None => self.main_regs = regs,
        }
    }
    pub fn frame_id(&self) -> u64 {
        self.acts.last().map(|a| a.id).unwrap_or(0)
    }

    fn text_index_of(&self, addr: u32) -> Option<usize> {
        if addr < TEXT_BASE || (addr - TEXT_BASE) % 4 != 0 {
            return None;
        }
        let i = ((addr - TEXT_BASE) / 4) as usize;
        if i < self.flat.text.len() {
            Some(i)
        } else {
            None
        }
    }

    fn label_addr(&self, l: &str) -> Option<u32> {
        self.flat.labels.get(l).copied()
    }

    pub fn step(&mut self) -> Option<Step> {
        if self.halted.is_some() {
            return None;
        }
        if self.steps >= self.budget {
            self.halted = Some(Halt::Budget);
            return None;
        }
        if self.pc >= self.flat.text.len() {
            self.halted = Some(Halt::FellOffEnd);
            return None;
        }
        self.steps += 1;
        let fi = &self.flat.text[self.pc];
        let ins = fi.ins.clone();
        let idx = self.pc;
        let mut st = Step {
            idx,
            line: fi.line,
            kind: Kind::Plain,
            reads: 0,
            write: None,
            env_writes: vec![],
            mem_read: None,
            mem_write: None,
            next: Some(idx + 1),
            regs_before: self.regs,
            depth: self.acts.len(),
        };
        macro_rules! trap {
            ($($a:tt)*) => {{
                self.halted = Some(Halt::Trap(format!($($a)*)));
                st.next = None;
                return Some(st);
            }};
        }
        let regs = self.regs;
        let rd_of = |k: usize| -> Option<u8> {
            match ins.ops.get(k) {
                Some(Opd::R(x)) => Some(*x),
                _ => None,
            }
        };
        let imm_of = |k: usize| -> Option<i64> {
            match ins.ops.get(k) {
                Some(Opd::I(v)) => Some(*v),
                _ => None,
            }
        };
        let lab_of = |k: usize| -> Option<String> {
            match ins.ops.get(k) {
                Some(Opd::L(s)) => Some(s.clone()),
                _ => None,
            }
        };
        let mut rd_val = |st: &mut Step, r: u8| -> u32 {
            st.reads |= 1u32 << r;
            regs[r as usize]
        };
        let mn = ins.mn.as_str();
        let mut write: Option<(u8, u32)> = None;
        let pc_addr = addr_of(idx);
        match mn {
            "add" | "sub" | "and" | "or" | "xor" | "sll" | "srl" | "sra" | "slt" | "sltu"
            | "mul" | "mulh" | "mulhsu" | "mulhu" | "div" | "divu" | "rem" | "remu" => {
                let (Some(d), Some(a), Some(b)) = (rd_of(0), rd_of(1), rd_of(2)) else {
                    trap!("bad operands")
                };
                let (x, y) = (rd_val(&mut st, a), rd_val(&mut st, b));
                write = Some((d, alu(mn, x, y).unwrap()));
            }
            "addi" | "andi" | "ori" | "xori" | "slti" | "sltiu" | "slli" | "srli" | "srai" => {
                let (Some(d), Some(a), Some(i)) = (rd_of(0), rd_of(1), imm_of(2)) else {
                    trap!("bad operands")
                };
                let x = rd_val(&mut st, a);
                let op = match mn {
                    "addi" => "add",
                    "andi" => "and",
                    "ori" => "or",
                    "xori" => "xor",
                    "slti" => "slt",
                    "sltiu" => "sltu",
                    "slli" => "sll",
                    "srli" => "srl",
                    _ => "sra",
                };
                write = Some((d, alu(op, x, i as u32).unwrap()));
            }
            "lui" => {
                let (Some(d), Some(i)) = (rd_of(0), imm_of(1)) else { trap!("bad operands") };
                write = Some((d, (i as u32) << 12));
            }
            "auipc" => {
                let (Some(d), Some(i)) = (rd_of(0), imm_of(1)) else { trap!("bad operands") };
                write = Some((d, pc_addr.wrapping_add((i as u32) << 12)));
            }
            "li" => {
                let (Some(d), Some(i)) = (rd_of(0), imm_of(1)) else { trap!("bad operands") };
                write = Some((d, i as u32));
            }
            "mv" | "neg" | "not" | "seqz" | "snez" | "sltz" | "sgtz" => {
                let (Some(d), Some(a)) = (rd_of(0), rd_of(1)) else { trap!("bad operands") };
                let x = rd_val(&mut st, a);
                let v = match mn {
                    "mv" => x,
                    "neg" => 0u32.wrapping_sub(x),
                    "not" => !x,
                    "seqz" => (x == 0) as u32,
                    "snez" => (x != 0) as u32,
                    "sltz" => ((x as i32) < 0) as u32,
                    _ => ((x as i32) > 0) as u32,
                };
                write = Some((d, v));
            }
            "nop" => {}
            "la" => {
                let (Some(d), Some(l)) = (rd_of(0), lab_of(1)) else { trap!("bad operands") };
                let Some(a) = self.label_addr(&l) else { trap!("undefined label {l}") };
                write = Some((d, a));
            }
            "lw" | "lh" | "lb" | "lhu" | "lbu" => {
                let Some(d) = rd_of(0) else { trap!("bad operands") };
                let addr = match ins.ops.get(1) {
                    Some(Opd::M(off, base)) => rd_val(&mut st, *base).wrapping_add(*off as u32),
                    Some(Opd::I(v)) => *v as u32,
                    Some(Opd::L(l)) => match self.label_addr(l) {
                        Some(a) => a,
                        None => trap!("undefined label {l}"),
                    },
                    _ => trap!("bad operands"),
                };
                let size = match mn {
                    "lw" => 4,
                    "lh" | "lhu" => 2,
                    _ => 1,
                };
                if addr % size as u32 != 0 {
                    trap!("misaligned load at {addr:#x}")
                }
                let raw = self.load(addr, size);
                let v = match mn {
                    "lh" => raw as u16 as i16 as i32 as u32,
                    "lb" => raw as u8 as i8 as i32 as u32,
                    _ => raw,
                };
                st.mem_read = Some((addr, size));
                write = Some((d, v));
            }
            "sw" | "sh" | "sb" => {
                let Some(s) = rd_of(0) else { trap!("bad operands") };
                let v = rd_val(&mut st, s);
                let mut tmp_write = None;
                let addr = match (ins.ops.get(1), ins.ops.get(2)) {
                    (Some(Opd::M(off, base)), None) => {
                        rd_val(&mut st, *base).wrapping_add(*off as u32)
                    }
                    (Some(Opd::I(a)), None) => *a as u32,
                    (Some(Opd::L(l)), Some(Opd::R(t))) => match self.label_addr(l) {
                        Some(a) => {
                            tmp_write = Some((*t, a));
                            a
                        }
                        None => trap!("undefined label {l}"),
                    },
                    (Some(Opd::I(a)), Some(Opd::R(t))) => {
                        tmp_write = Some((*t, *a as u32));
                        *a as u32
                    }
                    _ => trap!("bad operands"),
                };
                let size = match mn {
                    "sw" => 4,
                    "sh" => 2,
                    _ => 1,
                };
                if addr % size as u32 != 0 {
                    trap!("misaligned store at {addr:#x}")
                }
                self.store(addr, size, v);
                st.mem_write = Some((addr, size, v));
                write = tmp_write;
            }
            "beq" | "bne" | "blt" | "bge" | "bltu" | "bgeu" | "bgt" | "ble" | "bgtu" | "bleu" => {
                let (Some(a), Some(b), Some(l)) = (rd_of(0), rd_of(1), lab_of(2)) else {
                    trap!("bad operands")
                };
                let (x, y) = (rd_val(&mut st, a), rd_val(&mut st, b));
                let t = branch_taken(mn, x, y).unwrap();
                st.kind = Kind::Branch { taken: t };
                if t {
                    match self.flat.code_labels.get(&l) {
                        Some(i) => st.next = Some(*i),
                        None => trap!("branch to non-code label {l}"),
                    }
                }
            }
            "beqz" | "bnez" | "bltz" | "bgez" | "bgtz" | "blez" => {
                let (Some(a), Some(l)) = (rd_of(0), lab_of(1)) else { trap!("bad operands") };
                let x = rd_val(&mut st, a) as i32;
                let t = match mn {
                    "beqz" => x == 0,
                    "bnez" => x != 0,
                    "bltz" => x < 0,
                    "bgez" => x >= 0,
                    "bgtz" => x > 0,
                    _ => x <= 0,
                };
                st.kind = Kind::Branch { taken: t };
                if t {
                    match self.flat.code_labels.get(&l) {
                        Some(i) => st.next = Some(*i),
                        None => trap!("branch to non-code label {l}"),
                    }
                }
            }
            "j" | "b" => {
                let Some(l) = lab_of(0) else { trap!("bad operands") };
                st.kind = Kind::Jump;
                match self.flat.code_labels.get(&l) {
                    Some(i) => st.next = Some(*i),
                    None => trap!("jump to non-code label {l}"),
                }
            }
            "jal" | "call" => {
                let (d, l) = match (rd_of(0), lab_of(0), lab_of(1)) {
                    (Some(d), _, Some(l)) => (d, l),
                    (None, Some(l), _) => (RA, l),
                    _ => trap!("bad operands"),
                };
                let Some(t) = self.flat.code_labels.get(&l).copied() else {
                    trap!("jump to non-code label {l}")
                };
                write = Some((d, addr_of(idx + 1)));
                st.next = Some(t);
                st.kind = if d == RA {
                    Kind::Call { target: t }
                } else {
                    Kind::Jump
                };
            }
            "ret" | "jr" | "jalr" => {
                // forms: ret | jr rs | jalr rs | jalr rs, imm | jalr rd, rs, imm | jalr rd, imm(rs) | jalr rd, (rs)
                let (d, base, off) = match mn {
                    "ret" => (ZERO, RA, 0i64),
                    "jr" => match rd_of(0) {
                        Some(s) => (ZERO, s, 0),
                        None => trap!("bad operands"),
                    },
                    _ => match (ins.ops.first(), ins.ops.get(1), ins.ops.get(2)) {
                        (Some(Opd::R(s)), None, None) => (RA, *s, 0),
                        // RARS: `jalr rs, imm` links into ra
                        (Some(Opd::R(s)), Some(Opd::I(i)), None) => (RA, *s, *i),
                        (Some(Opd::R(d)), Some(Opd::R(s)), Some(Opd::I(i))) => (*d, *s, *i),
                        (Some(Opd::R(d)), Some(Opd::M(i, s)), None) => (*d, *s, *i),
                        _ => trap!("bad operands"),
                    },
                };
                let target = rd_val(&mut st, base).wrapping_add(off as u32) & !1;
                if d != ZERO {
                    write = Some((d, addr_of(idx + 1)));
                }
                let is_ret = d == ZERO && base == RA && off == 0;
                st.kind = if is_ret { Kind::Ret } else { Kind::IndirectJump };
                match self.text_index_of(target) {
                    Some(i) => st.next = Some(i),
                    None => {
                        // returning from main (or to a bad address) leaves the program
                        if let Some((r, v)) = write {
                            if r != 0 {
                                self.regs[r as usize] = v;
                            }
                            st.write = write;
                        }
                        self.halted = Some(if is_ret && self.acts.is_empty() {
                            Halt::FellOffEnd
                        } else {
                            Halt::Trap(format!("jump to {target:#x} outside the text"))
                        });
                        st.next = None;
                        return Some(st);
                    }
                }
            }
            "ecall" => {
                let n = rd_val(&mut st, A7) as i32;
                match ecall_sig(n) {
                    None => trap!("unknown environment call {n}"),
                    Some((args, rets)) => {
                        for a in args {
                            let _ = rd_val(&mut st, *a);
                        }
                        let exits = n == 10 || n == 93;
                        st.kind = Kind::Ecall { num: n, exits };
                        if exits {
                            self.halted = Some(Halt::Exit);
                            st.next = None;
                            return Some(st);
                        }
                        for r in rets {
                            let v = self.next_env();
                            st.env_writes.push((*r, v));
                        }
                    }
                }
            }
            "ebreak" => {}
            "csrrw" | "csrrs" | "csrrc" | "csrrwi" | "csrrsi" | "csrrci" | "csrr" | "csrw"
            | "csrs" | "csrc" | "csrwi" | "csrsi" | "csrci" => {
                // canonical operand order: rd, csr, src; RARS pseudo order for csrw/s/c: rs, csr
                let (d, c, src): (u8, String, u32) = match mn {
                    "csrrw" | "csrrs" | "csrrc" => match (&ins.ops[0], &ins.ops[1], &ins.ops[2]) {
                        (Opd::R(d), Opd::C(c), Opd::R(s)) => (*d, c.clone(), rd_val(&mut st, *s)),
                        _ => trap!("bad operands"),
                    },
                    "csrrwi" | "csrrsi" | "csrrci" => match (&ins.ops[0], &ins.ops[1], &ins.ops[2])
                    {
                        (Opd::R(d), Opd::C(c), Opd::I(i)) => (*d, c.clone(), *i as u32),
                        _ => trap!("bad operands"),
                    },
                    "csrr" => match (&ins.ops[0], &ins.ops[1]) {
                        (Opd::R(d), Opd::C(c)) => (*d, c.clone(), 0),
                        _ => trap!("bad operands"),
                    },
                    "csrw" | "csrs" | "csrc" => match (&ins.ops[0], &ins.ops[1]) {
                        (Opd::R(s), Opd::C(c)) => (ZERO, c.clone(), rd_val(&mut st, *s)),
                        _ => trap!("bad operands"),
                    },
                    _ => match (&ins.ops[0], &ins.ops[1]) {
                        (Opd::C(c), Opd::I(i)) => (ZERO, c.clone(), *i as u32),
                        _ => trap!("bad operands"),
                    },
                };
                let old = self.csr.get(&c).copied().unwrap_or(0);
                let new = match mn {
                    "csrrw" | "csrrwi" | "csrw" | "csrwi" => src,
                    "csrrs" | "csrrsi" | "csrs" | "csrsi" | "csrr" => old | src,
                    _ => old & !src,
                };
                self.csr.insert(c, new);
                if d != ZERO {
                    write = Some((d, old));
                }
            }
            other => trap!("instruction {other} is outside RV32IM / the reference machine"),
        }
        if let Some((r, v)) = write {
            if r != 0 {
                self.regs[r as usize] = v;
                st.write = Some((r, v));
            }
        }
        for (r, v) in &st.env_writes {
            if *r != 0 {
                self.regs[*r as usize] = *v;
            }
        }
        // activation stack
        match st.kind {
            Kind::Call { target } => {
                let id = self.next_act;
                self.next_act += 1;
                self.acts.push(Activation {
                    entry: target,
                    ret_to: idx + 1,
                    call_site: idx,
                    entry_regs: self.regs,
                    id,
                });
                if self.acts.len() > 200 {
                    self.halted = Some(Halt::Budget);
                    st.next = None;
                    return Some(st);
                }
            }
            Kind::Ret => {
                if let Some(top) = self.acts.last() {
                    if st.next == Some(top.ret_to) {
                        self.acts.pop();
                    }
                }
            }
            _ => {}
        }
        if let Some(n) = st.next {
            self.pc = n;
        }
        Some(st)
    }
}

#[cfg(test)]
mod tests {
    use super::*;

    #[test]
    fn alu_vectors() {
        let min = i32::MIN as u32;
        assert_eq!(alu("div", min, u32::MAX), Some(min));
        assert_eq!(alu("rem", min, u32::MAX), Some(0));
        assert_eq!(alu("div", 7, 0), Some(u32::MAX));
        assert_eq!(alu("divu", 7, 0), Some(u32::MAX));
        assert_eq!(alu("rem", 7, 0), Some(7));
        assert_eq!(alu("remu", 7, 0), Some(7));
        assert_eq!(alu("div", (-7i32) as u32, 2), Some((-3i32) as u32));
        assert_eq!(alu("rem", (-7i32) as u32, 2), Some((-1i32) as u32));
        assert_eq!(alu("sll", 1, 33), Some(2));
        assert_eq!(alu("srl", 0x8000_0000, 31), Some(1));
        assert_eq!(alu("sra", 0x8000_0000, 31), Some(u32::MAX));
        assert_eq!(alu("sra", 0x8000_0000, 63), Some(u32::MAX));
        assert_eq!(alu("mulh", u32::MAX, u32::MAX), Some(0));
        assert_eq!(alu("mulhu", u32::MAX, u32::MAX), Some(0xffff_fffe));
        assert_eq!(alu("mulhsu", u32::MAX, u32::MAX), Some(u32::MAX));
        assert_eq!(alu("mulhsu", 2, u32::MAX), Some(1));
        assert_eq!(alu("mulh", min, min), Some(0x4000_0000));
        assert_eq!(alu("slt", u32::MAX, 0), Some(1));
        assert_eq!(alu("sltu", u32::MAX, 0), Some(0));
        assert_eq!(alu("add", u32::MAX, 1), Some(0));
        assert_eq!(alu("sub", 0, 1), Some(u32::MAX));
        assert_eq!(alu("mul", 0x10000, 0x10000), Some(0));
        // differential: i64/u64 arithmetic for the M extension
        let mut x = 0x1234_5678u32;
        for _ in 0..2000 {
            x = x.wrapping_mul(1664525).wrapping_add(1013904223);
            let a = x;
            x = x.wrapping_mul(1664525).wrapping_add(1013904223);
            let b = x;
            assert_eq!(alu("mul", a, b).unwrap(), ((a as u64 * b as u64) & 0xffff_ffff) as u32);
            let p = (a as i32 as i128) * (b as i32 as i128);
            assert_eq!(alu("mulh", a, b).unwrap(), (p >> 32) as u32);
            let p = (a as i32 as i128) * (b as i128);
            assert_eq!(alu("mulhsu", a, b).unwrap(), (p >> 32) as u32);
            let p = (a as i128) * (b as i128);
            assert_eq!(alu("mulhu", a, b).unwrap(), (p >> 32) as u32);
        }
    }

    #[test]
    fn runs_a_call() {
        let prog = vec![
            label("main"),
            ins("li", vec![r(10), i(5)]),
            ins("jal", vec![l("f")]),
            ins("li", vec![r(17), i(10)]),
            ins("ecall", vec![]),
            label("f"),
            ins("addi", vec![r(2), r(2), i(-4)]),
            ins("sw", vec![r(1), m(0, 2)]),
            ins("addi", vec![r(10), r(10), i(1)]),
            ins("lw", vec![r(1), m(0, 2)]),
            ins("addi", vec![r(2), r(2), i(4)]),
            ins("ret", vec![]),
        ];
        let flat = flatten(&prog);
        let inp = Inputs {
            regs: {
                let mut r = [7u32; 32];
                r[2] = 0x7fff_0000;
                r
            },
            mem_seed: 1,
            env: vec![1],
        };
        let mut m = Machine::new(&flat, &inp, 1000);
        let mut n = 0;
        let mut max_depth = 0;
        while let Some(s) = m.step() {
            n += 1;
            max_depth = max_depth.max(m.acts.len());
            let _ = s;
        }
        assert_eq!(m.halted, Some(Halt::Exit));
        assert_eq!(m.regs[10], 6);
        assert_eq!(n, 10);
        assert_eq!(max_depth, 1);
        assert_eq!(m.regs[2], 0x7fff_0000);
    }
}
