//! C08 — decoding, pseudo-expansion and constant folding follow RV32IM.
//!
//! Decode table: every mnemonic x accepted operand form x boundary operands
//! is rendered to text, parsed, and the node(s) the analyzer builds are
//! (a) compared field by field with the manual's assignment for base
//! instructions and (b) executed by the reference machine next to the
//! original text (official semantics, official pseudo expansions) on a set
//! of register files: result register, next instruction and memory effect
//! must agree. Folding: `MathOp::operate` and the end-to-end value analysis
//! against the machine's ALU on a boundary grid (exhaustive) and random pairs.

use serde::{Deserialize, Serialize};
use serde_json::{json, Value};

use crate::adapter::{self, single, Decoded, FOLD_OPS};
use crate::choice::Choices;
use crate::machine::{self, alu, flatten, Inputs, Machine};
use crate::model::*;
use crate::runner::{Ctx, Prop, Tier, Violation};

#[derive(Clone, Debug, Serialize, Deserialize)]
pub enum Case {
    /// one statement, to be decoded and executed
    Decode { ins: Ins, form: String },
    /// MathOp::operate(op, x, y)
    Fold { op: String, x: i32, y: i32 },
    /// `li t0, x; li t1, y; op t2, t0, t1` (or the I-type form) through the value analysis
    FoldE2E {
        mn: String,
        x: i32,
        y: i32,
        /// write the first / second source operand as `zero` (the value is then 0)
        #[serde(default)]
        zx: bool,
        #[serde(default)]
        zy: bool,
    },
}

pub struct C08;

const BOUNDARY_REGS: [u8; 6] = [0, 1, 2, 5, 10, 31];
const RFILES: usize = 6;

fn csr_number(name: &str) -> String {
    let n = match name {
        "ustatus" => 0x000,
        "fflags" => 0x001,
        "frm" => 0x002,
        "fcsr" => 0x003,
        "uie" => 0x004,
        "utvec" => 0x005,
        "uscratch" => 0x040,
        "uepc" => 0x041,
        "ucause" => 0x042,
        "utval" => 0x043,
        "uip" => 0x044,
        "cycle" => 0xC00,
        "time" => 0xC01,
        "instret" => 0xC02,
        "cycleh" => 0xC80,
        "timeh" => 0xC81,
        "instreth" => 0xC82,
        other => {
            let low = other.to_lowercase();
            return match low.strip_prefix("0x") {
                Some(h) => u32::from_str_radix(h, 16).map(|v| v.to_string()).unwrap_or(low),
                None => low,
            };
        }
    };
    n.to_string()
}

fn normalise_csr(i: &Ins) -> Ins {
    Ins {
        mn: i.mn.clone(),
        ops: i
            .ops
            .iter()
            .map(|o| match o {
                Opd::C(c) => Opd::C(csr_number(c)),
                o => o.clone(),
            })
            .collect(),
    }
}

/// The base instruction a decoded node stands for, as a model instruction.
fn node_to_ins(d: &Decoded) -> Option<Ins> {
    let rr = |x: Option<u8>| x.map(Opd::R);
    Some(match d.class.as_str() {
        "arith" => Ins::new(&d.inst, vec![rr(d.rd)?, rr(d.rs1)?, rr(d.rs2)?]),
        "iarith" => match d.inst.as_str() {
            // the analyzer stores the already shifted immediate and treats the node as "rd = imm"
            "lui" => Ins::new("li", vec![rr(d.rd)?, Opd::I(d.imm? as i32 as i64)]),
            "auipc" => {
                if d.rs1 != Some(0) {
                    return None;
                }
                Ins::new("auipc", vec![rr(d.rd)?, Opd::I(((d.imm? as u32) >> 12) as i64)])
            }
            _ => Ins::new(&d.inst, vec![rr(d.rd)?, rr(d.rs1)?, Opd::I(d.imm?)]),
        },
        "jumplink" => Ins::new("jal", vec![rr(d.rd)?, Opd::L(d.label.clone()?)]),
        "jumplinkr" => Ins::new("jalr", vec![rr(d.rd)?, rr(d.rs1)?, Opd::I(d.imm?)]),
        "basic" => Ins::new(&d.inst, vec![]),
        "branch" => Ins::new(&d.inst, vec![rr(d.rs1)?, rr(d.rs2)?, Opd::L(d.label.clone()?)]),
        "store" => Ins::new(&d.inst, vec![rr(d.rs2)?, Opd::M(d.imm?, d.rs1?)]),
        "load" => Ins::new(&d.inst, vec![rr(d.rd)?, Opd::M(d.imm?, d.rs1?)]),
        "loadaddr" => Ins::new("la", vec![rr(d.rd)?, Opd::L(d.label.clone()?)]),
        "csr" => Ins::new(
            &d.inst,
            vec![rr(d.rd)?, Opd::C(d.csr?.to_string()), rr(d.rs1)?],
        ),
        "csri" => Ins::new(
            &d.inst,
            vec![rr(d.rd)?, Opd::C(d.csr?.to_string()), Opd::I(d.imm?)],
        ),
        _ => return None,
    })
}

fn harness_program(body: &[Ins]) -> Vec<Line> {
    let mut v = vec![
        Line::Dir(".data".into(), vec![]),
        label("dat"),
        Line::Dir(".word".into(), vec![i(0x11223344), i(-2)]),
        Line::Dir(".text".into(), vec![]),
        label("back"),
        ins("nop", vec![]),
    ];
    for b in body {
        v.push(Line::Ins(b.clone()));
    }
    v.push(ins("nop", vec![]));
    v.push(label("target"));
    v.push(ins("nop", vec![]));
    v
}

#[derive(Debug, PartialEq, Eq)]
struct Effect {
    regs: [u32; 32],
    /// 0 = back, 1 = fall through, 2 = target, 3 = elsewhere/halt
    next: u8,
    mem: Vec<(u32, u8, u32)>,
    halted: Option<String>,
}

fn run_body(body: &[Ins], inp: &Inputs) -> (Effect, u32, Option<u8>) {
    let prog = harness_program(body);
    let flat = flatten(&prog);
    let mut m = Machine::new(&flat, inp, 50);
    m.pc = 1;
    m.csr.insert("64".into(), 0x5a5a);
    let k = body.len();
    let mut mem = vec![];
    let mut reads = 0u32;
    let mut write = None;
    let mut next = Some(1);
    let mut link: Option<(u8, u32)> = None;
    for step_no in 0..k {
        match m.step() {
            Some(s) => {
                if step_no == 0 {
                    reads = s.reads;
                    write = s.write.map(|w| w.0);
                }
                if let Some(w) = s.mem_write {
                    mem.push(w);
                }
                if let Some((r, v)) = s.write {
                    if v == machine::addr_of(s.idx + 1)
                        && matches!(
                            s.kind,
                            machine::Kind::Call { .. } | machine::Kind::Jump | machine::Kind::IndirectJump | machine::Kind::Ret
                        )
                    {
                        link = Some((r, v));
                    }
                }
                next = s.next;
                if s.next != Some(s.idx + 1) {
                    break;
                }
            }
            None => break,
        }
    }
    let nx = match next {
        Some(0) => 0,
        Some(n) if n == 1 + k => 1,
        Some(n) if n == 2 + k => 2,
        _ => 3,
    };
    // ra values depend on the length of the body; normalise link addresses
    let mut regs = m.regs;
    if let Some((r, v)) = link {
        if regs[r as usize] == v {
            regs[r as usize] = 0xC0DE_0001;
        }
    }
    (
        Effect {
            regs,
            next: nx,
            mem,
            halted: m.halted.as_ref().map(|h| format!("{h:?}")),
        },
        reads,
        write,
    )
}

fn reg_files() -> Vec<Inputs> {
    let vals: [[u32; 4]; RFILES] = [
        [0, 0, 0, 0],
        [1, 2, 3, 4],
        [0xffff_ffff, 1, 0x8000_0000, 0x7fff_ffff],
        [0x8000_0000, 0xffff_ffff, 5, 0xffff_fff0],
        [7, 0xffff_fff9, 0x1234_5678, 31],
        [0x7fff_ffff, 0x8000_0001, 33, 0xdead_beef],
    ];
    vals.iter()
        .enumerate()
        .map(|(k, v)| {
            let mut regs = [0u32; 32];
            for (r, x) in regs.iter_mut().enumerate() {
                *x = v[r % 4].wrapping_add((r as u32 / 4).wrapping_mul(0x0101_0101 * k as u32));
            }
            regs[0] = 0;
            // sp is a stack address; in some files t0/ra/a0 hold text or data addresses so
            // that indirect jumps and loads/stores through them do something
            regs[2] = 0x7fff_0000 + 16 * k as u32;
            if k % 2 == 1 {
                regs[5] = machine::addr_of(0);
                regs[1] = machine::addr_of(3);
                regs[10] = machine::addr_of(0).wrapping_sub(4);
            }
            if k == 2 || k == 4 {
                regs[10] = machine::DATA_BASE + if k == 4 { 4 } else { 0 };
            }
            Inputs {
                regs,
                mem_seed: 17 + k as u32,
                env: vec![0x55 + k as u32],
            }
        })
        .collect()
}

impl C08 {
    fn check_decode(insn: &Ins, form: &str, ctx: &mut Ctx) -> Vec<Violation> {
        let mut out = vec![];
        let text_line = render_plain(&[Line::Ins(insn.clone())]).text;
        let text = format!(
            ".data\ndat:\n.word 1\n.text\nback:\n    nop\n{}    nop\ntarget:\n    nop\n",
            text_line
        );
        let viol = |what: &str, msg: String| {
            Violation::new(format!("{} [{}]: {}", text_line.trim(), form, msg))
                .with("mnemonic", insn.mn.clone())
                .with("form", form)
                .with("what", what)
        };
        ctx.label(format!("mn:{}", insn.mn));
        ctx.nontrivial = true;
        let parsed = match adapter::parse(&single(&text)) {
            Ok(p) => p,
            Err(p) => {
                out.push(viol("panic", format!("parser panicked: {}", p.message)));
                return out;
            }
        };
        let line_start = text.find(text_line.trim()).unwrap_or(0);
        let line_end = line_start + text_line.trim().len();
        let nodes: Vec<_> = parsed
            .nodes
            .iter()
            .filter(|n| n.range.start.raw >= line_start && n.range.start.raw < line_end)
            .collect();
        let errs: Vec<_> = parsed
            .errors
            .iter()
            .filter(|e| e.range.start.raw >= line_start && e.range.start.raw <= line_end)
            .collect();
        if !errs.is_empty() || nodes.is_empty() {
            out.push(viol(
                "official-form-rejected",
                format!(
                    "the manual's operand form is not accepted: {:?}",
                    errs.iter().map(|e| e.title.clone()).collect::<Vec<_>>()
                ),
            ));
            return out;
        }
        // base instruction(s) the analyzer built
        let mut body: Vec<Ins> = vec![];
        for n in &nodes {
            match n.detail.as_ref().and_then(node_to_ins) {
                Some(b) => body.push(b),
                None => {
                    out.push(viol(
                        "undecodable-node",
                        format!("node {:?} has no base-instruction reading", n.shown),
                    ));
                    return out;
                }
            }
        }
        // (a) exact fields for base instructions written in canonical operand order
        let d = nodes[0].detail.as_ref().unwrap();
        if form == "base" && nodes.len() == 1 {
            let want = normalise_csr(insn);
            let got = &body[0];
            // lui/auipc are compared semantically only (internal representation differs)
            if insn.mn != "lui" && insn.mn != "auipc" && *got != want {
                out.push(viol(
                    "wrong-fields",
                    format!("decoded as {:?} {:?}, the text says {:?}", got.mn, got.ops, want.ops),
                ));
            }
            ctx.fact("field_comparisons", 1);
        }
        // (b) semantic agreement on a set of register files
        let official = normalise_csr(insn);
        for inp in reg_files() {
            let (mut e1, reads1, write1) = run_body(std::slice::from_ref(&official), &inp);
            let (mut e2, _, _) = run_body(&body, &inp);
            // the scratch register of `store rs2, address, tmp` is left with an unspecified value
            if let (true, Some(Opd::R(t))) = (form.ends_with("-tmp"), insn.ops.get(2)) {
                e1.regs[*t as usize] = 0;
                e2.regs[*t as usize] = 0;
            }
            ctx.fact("executions_compared", 1);
            if e1.halted.as_deref().map(|h| h.contains("outside RV32IM")).unwrap_or(false) {
                ctx.skip("not_rv32im");
                return out;
            }
            if e1 != e2 {
                let diff: Vec<String> = (0..32)
                    .filter(|r| e1.regs[*r] != e2.regs[*r])
                    .map(|r| format!("{}: official {:#x} vs built {:#x}", ABI[r], e1.regs[r], e2.regs[r]))
                    .collect();
                out.push(viol(
                    "wrong-semantics",
                    format!(
                        "built node(s) {:?} behave differently from the official meaning: next {} vs {}, regs [{}], mem {:?} vs {:?}, halt {:?} vs {:?}",
                        body.iter().map(|b| format!("{} {:?}", b.mn, b.ops)).collect::<Vec<_>>(),
                        e1.next,
                        e2.next,
                        diff.join("; "),
                        e1.mem,
                        e2.mem,
                        e1.halted,
                        e2.halted
                    ),
                ));
                break;
            }
            // (c) read / write sets of a single node against the architecture
            if nodes.len() == 1 && insn.mn != "ecall" {
                let arch_reads = reads1 & !1;
                let arch_write = write1.map(|w| 1u32 << w).unwrap_or(0) & !1;
                // the machine reports the write only when rd != x0; take rd from the text
                if d.reads & !1 != arch_reads {
                    out.push(viol(
                        "wrong-read-set",
                        format!(
                            "said to read {{{}}}, architecturally reads {{{}}}",
                            mask_names(d.reads & !1),
                            mask_names(arch_reads)
                        ),
                    ));
                    break;
                }
                if d.writes & !1 != arch_write && !matches!(insn.mn.as_str(), "sw" | "sh" | "sb") {
                    out.push(viol(
                        "wrong-write-set",
                        format!(
                            "said to write {{{}}}, architecturally writes {{{}}}",
                            mask_names(d.writes & !1),
                            mask_names(arch_write)
                        ),
                    ));
                    break;
                }
                ctx.fact("read_write_sets_compared", 1);
            }
        }
        out
    }

    fn check_fold(op: &str, x: i32, y: i32, ctx: &mut Ctx) -> Vec<Violation> {
        let want = alu(op, x as u32, y as u32).unwrap() as i32;
        ctx.fact("fold_comparisons", 1);
        ctx.nontrivial = true;
        let operand_class = |v: i32| match v {
            i32::MIN => "min",
            -1 => "minus-one",
            0 => "zero",
            v if v < 0 => "negative",
            v if v >= 32 => "ge32",
            _ => "small",
        };
        let mk = |what: &str, msg: String| {
            vec![Violation::new(format!("fold {op}({x}, {y}): {msg}"))
                .with("operator", op)
                .with("what", what)
                .with("x_class", operand_class(x))
                .with("y_class", operand_class(y))
                .with("profile", if cfg!(debug_assertions) { "checked" } else { "release" })]
        };
        match adapter::fold(op, x, y) {
            Err(p) => mk("panic", format!("panicked ({}); RV32IM gives {want}", p.message)),
            Ok(got) if got != want => mk("wrong-value", format!("gives {got}; RV32IM gives {want}")),
            Ok(_) => vec![],
        }
    }

    fn check_fold_e2e(mn: &str, x: i32, y: i32, zx: bool, zy: bool, ctx: &mut Ctx) -> Vec<Violation> {
        let x = if zx { 0 } else { x };
        let itype = matches!(
            mn,
            "addi" | "andi" | "ori" | "xori" | "slti" | "sltiu" | "slli" | "srli" | "srai"
        );
        let op = if itype {
            match mn {
                "addi" => "add",
                "andi" => "and",
                "ori" => "or",
                "xori" => "xor",
                "slti" => "slt",
                "sltiu" => "sltu",
                "slli" => "sll",
                "srli" => "srl",
                _ => "sra",
            }
        } else {
            mn
        };
        let y = if zy && !itype { 0 } else { y };
        let want = alu(op, x as u32, y as u32).unwrap() as i32;
        let (ox, oy) = (if zx { "zero" } else { "t0" }, if zy { "zero" } else { "t1" });
        let text = if itype {
            format!("main:\n    li t0, {x}\n    {mn} t2, {ox}, {y}\n    mv a0, t2\n    li a7, 1\n    ecall\n    li a7, 10\n    ecall\n")
        } else {
            format!("main:\n    li t0, {x}\n    li t1, {y}\n    {mn} t2, {ox}, {oy}\n    mv a0, t2\n    li a7, 1\n    ecall\n    li a7, 10\n    ecall\n")
        };
        ctx.fact("fold_e2e_comparisons", 1);
        ctx.nontrivial = true;
        let mk = |what: &str, msg: String| {
            vec![Violation::new(format!(
                "value analysis of `{mn} t2, {ox}, {}` on ({x}, {y}): {msg}",
                if itype { y.to_string() } else { oy.to_string() }
            ))
            .with("operator", mn)
            .with("what", what)
            .with("stage", "value-analysis")
            .with("zero_operands", format!("{}{}", zx as u8, zy as u8))]
        };
        match adapter::analyze(&single(&text), &Default::default()) {
            Err(p) => mk("panic", format!("panicked ({}); RV32IM gives {want}", p.message)),
            Ok(a) => {
                let Some(cfg) = a.cfg else {
                    return mk("no-cfg", format!("no CFG: {:?}", a.cfg_error));
                };
                let node = cfg.nodes.iter().find(|n| n.shown.starts_with(&format!("{mn} t2")));
                match node.and_then(|n| n.reg_out.get(&7)) {
                    Some(adapter::Val::Const(c)) if *c == want => vec![],
                    Some(adapter::Val::Const(c)) => {
                        mk("wrong-value", format!("claims t2 = {c}; RV32IM gives {want}"))
                    }
                    // not folding is imprecise, not wrong
                    _ => {
                        ctx.skip("not_folded");
                        vec![]
                    }
                }
            }
        }
    }
}

pub const GRID: [i32; 40] = [
    0,
    1,
    2,
    3,
    4,
    5,
    7,
    8,
    15,
    16,
    31,
    32,
    33,
    63,
    64,
    127,
    255,
    256,
    2047,
    2048,
    4095,
    4096,
    65535,
    65536,
    0x7fff_ffff,
    0x7fff_fffe,
    0x4000_0000,
    0x1234_5678,
    -1,
    -2,
    -3,
    -31,
    -32,
    -33,
    -2048,
    -2049,
    -65536,
    i32::MIN,
    i32::MIN + 1,
    -0x4000_0000,
];

/// Every mnemonic x accepted operand form, with boundary operands.
pub fn decode_table() -> Vec<(Ins, String)> {
    let mut t: Vec<(Ins, String)> = vec![];
    let regs = BOUNDARY_REGS;
    let imms = [0i64, 1, -1, 2047, -2048];
    let base = "base".to_string();
    let pseudo = "pseudo".to_string();
    for mn in [
        "add", "sub", "and", "or", "xor", "sll", "srl", "sra", "slt", "sltu", "mul", "mulh",
        "mulhsu", "mulhu", "div", "divu", "rem", "remu",
    ] {
        for a in regs {
            for b in regs {
                for c in regs {
                    t.push((Ins::new(mn, vec![r(a), r(b), r(c)]), base.clone()));
                }
            }
        }
    }
    for mn in ["addi", "andi", "ori", "xori", "slti", "sltiu"] {
        for a in regs {
            for b in regs {
                for k in imms {
                    t.push((Ins::new(mn, vec![r(a), r(b), i(k)]), base.clone()));
                }
            }
        }
    }
    for mn in ["slli", "srli", "srai"] {
        for a in regs {
            for b in regs {
                for k in [0i64, 1, 31] {
                    t.push((Ins::new(mn, vec![r(a), r(b), i(k)]), base.clone()));
                }
            }
        }
    }
    for a in regs {
        for k in [0i64, 1, 0x7ffff, 0x80000, 0xfffff] {
            t.push((Ins::new("lui", vec![r(a), i(k)]), base.clone()));
            t.push((Ins::new("auipc", vec![r(a), i(k)]), base.clone()));
        }
        for k in [0i64, 1, -1, 2047, -2048, 2048, 0x7fff_ffff, -0x8000_0000, 0x1234_5678] {
            t.push((Ins::new("li", vec![r(a), i(k)]), pseudo.clone()));
        }
        t.push((Ins::new("la", vec![r(a), l("dat")]), pseudo.clone()));
        t.push((Ins::new("la", vec![r(a), l("target")]), pseudo.clone()));
        for b in regs {
            for mn in ["mv", "neg", "not", "seqz", "snez", "sltz", "sgtz"] {
                t.push((Ins::new(mn, vec![r(a), r(b)]), pseudo.clone()));
            }
        }
    }
    for mn in ["lw", "lh", "lb", "lhu", "lbu"] {
        for a in regs {
            for b in [2u8, 0, 10] {
                for k in [0i64, 4, -4, 8] {
                    t.push((Ins::new(mn, vec![r(a), m(k, b)]), base.clone()));
                }
            }
            t.push((Ins::new(mn, vec![r(a), l("dat")]), "load-label".to_string()));
            for k in [64i64, -100, 2044, -2048, 2048, -2052, 0x1001_0400, 0x1001_0804, 0x1001_0ffc, 0x7fff_f7fc, -0x7fff_f800] {
                t.push((Ins::new(mn, vec![r(a), i(k)]), "load-absolute".to_string()));
            }
        }
    }
    for mn in ["sw", "sh", "sb"] {
        for a in regs {
            for b in [2u8, 0, 10] {
                for k in [0i64, 4, -4, 8] {
                    t.push((Ins::new(mn, vec![r(a), m(k, b)]), base.clone()));
                }
            }
            t.push((
                Ins::new(mn, vec![r(a), l("dat"), r(6)]),
                "store-label-tmp".to_string(),
            ));
            t.push((Ins::new(mn, vec![r(a), i(64)]), "store-absolute".to_string()));
            for k in [64i64, -100, 2044, -2048, 2048, -2052, 0x1001_0400, 0x1001_0804, 0x1001_0ffc, 0x7fff_f7fc, -0x7fff_f800] {
                t.push((Ins::new(mn, vec![r(a), i(k), r(6)]), "store-absolute-tmp".to_string()));
            }
        }
    }
    for mn in ["beq", "bne", "blt", "bge", "bltu", "bgeu"] {
        for a in regs {
            for b in regs {
                for tg in ["target", "back"] {
                    t.push((Ins::new(mn, vec![r(a), r(b), l(tg)]), base.clone()));
                }
            }
        }
    }
    for mn in ["bgt", "ble", "bgtu", "bleu"] {
        for a in regs {
            for b in regs {
                t.push((Ins::new(mn, vec![r(a), r(b), l("target")]), pseudo.clone()));
            }
        }
    }
    for mn in ["beqz", "bnez", "bltz", "bgez", "bgtz", "blez"] {
        for a in regs {
            for tg in ["target", "back"] {
                t.push((Ins::new(mn, vec![r(a), l(tg)]), pseudo.clone()));
            }
        }
    }
    for tg in ["target", "back"] {
        t.push((Ins::new("j", vec![l(tg)]), pseudo.clone()));
        t.push((Ins::new("jal", vec![l(tg)]), pseudo.clone()));
        t.push((Ins::new("call", vec![l(tg)]), pseudo.clone()));
        for a in regs {
            t.push((Ins::new("jal", vec![r(a), l(tg)]), base.clone()));
        }
    }
    // jalr / jr / ret: targets come from registers; use register files where they are text addresses
    for a in regs {
        for b in [5u8, 1, 10] {
            t.push((Ins::new("jalr", vec![r(a), r(b), i(0)]), base.clone()));
            t.push((Ins::new("jalr", vec![r(a), r(b), i(4)]), base.clone()));
            t.push((Ins::new("jalr", vec![r(b), i(0)]), "jalr-reg-imm".to_string()));
            t.push((Ins::new("jalr", vec![r(b), i(4)]), "jalr-reg-imm".to_string()));
            t.push((Ins::new("jalr", vec![r(a), m(0, b)]), "jalr-mem".to_string()));
            t.push((Ins::new("jalr", vec![r(a), m(4, b)]), "jalr-mem".to_string()));
        }
    }
    for b in [5u8, 1, 10, 31] {
        t.push((Ins::new("jr", vec![r(b)]), pseudo.clone()));
        t.push((Ins::new("jalr", vec![r(b)]), pseudo.clone()));
    }
    t.push((Ins::new("ret", vec![]), pseudo.clone()));
    t.push((Ins::new("nop", vec![]), pseudo.clone()));
    t.push((Ins::new("ecall", vec![]), base.clone()));
    t.push((Ins::new("ebreak", vec![]), base.clone()));
    for c in ["ustatus", "utvec", "uscratch", "64", "0x41", "cycle"] {
        for a in [0u8, 5, 10] {
            for b in [0u8, 6, 31] {
                for mn in ["csrrw", "csrrs", "csrrc"] {
                    t.push((
                        Ins::new(mn, vec![r(a), Opd::C(c.to_string()), r(b)]),
                        base.clone(),
                    ));
                }
            }
            for k in [0i64, 1, 31] {
                for mn in ["csrrwi", "csrrsi", "csrrci"] {
                    t.push((
                        Ins::new(mn, vec![r(a), Opd::C(c.to_string()), i(k)]),
                        base.clone(),
                    ));
                }
            }
            t.push((Ins::new("csrr", vec![r(a), Opd::C(c.to_string())]), pseudo.clone()));
        }
        for k in [0i64, 1, 31] {
            for mn in ["csrwi", "csrsi", "csrci"] {
                t.push((Ins::new(mn, vec![Opd::C(c.to_string()), i(k)]), pseudo.clone()));
            }
        }
    }
    t
}

impl Prop for C08 {
    type Case = Case;

    fn gen(ch: &mut Choices, _tier: Tier) -> Option<Case> {
        // random part: folding on random 32-bit pairs (direct and end-to-end)
        let x = ch.word() as i32;
        let y = if ch.chance(1, 4) {
            ch.int_in(0, 40) as i32
        } else {
            ch.word() as i32
        };
        if ch.chance(1, 6) {
            let mn = ch.pick_str(&[
                "add", "sub", "and", "or", "xor", "sll", "srl", "sra", "slt", "sltu", "mul",
                "mulh", "mulhsu", "mulhu", "div", "divu", "rem", "remu", "addi", "andi", "ori",
                "xori", "slti", "sltiu", "slli", "srli", "srai",
            ]);
            let y = if matches!(mn, "slli" | "srli" | "srai") {
                y & 31
            } else {
                y
            };
            Some(Case::FoldE2E {
                mn: mn.to_string(),
                x,
                y,
                zx: ch.chance(1, 5),
                zy: ch.chance(1, 5),
            })
        } else {
            Some(Case::Fold {
                op: ch.pick_str(&FOLD_OPS).to_string(),
                x,
                y,
            })
        }
    }

    fn check(case: &Case, ctx: &mut Ctx) -> Vec<Violation> {
        match case {
            Case::Decode { ins, form } => C08::check_decode(ins, form, ctx),
            Case::Fold { op, x, y } => {
                ctx.label(format!("fold:{op}"));
                C08::check_fold(op, *x, *y, ctx)
            }
            Case::FoldE2E { mn, x, y, zx, zy } => {
                ctx.label(format!("fold-e2e:{mn}"));
                C08::check_fold_e2e(mn, *x, *y, *zx, *zy, ctx)
            }
        }
    }

    fn show(case: &Case) -> Value {
        match case {
            Case::Decode { ins, form } => json!({
                "statement": render_plain(&[Line::Ins(ins.clone())]).text.trim(), "form": form}),
            Case::Fold { op, x, y } => json!({"fold": op, "x": x, "y": y}),
            Case::FoldE2E { mn, x, y, zx, zy } => json!({"fold_through_value_analysis": mn, "x": x, "y": y, "first_operand_is_zero_register": zx, "second_operand_is_zero_register": zy}),
        }
    }

    fn enumerate(_tier: Tier, ctx: &mut Ctx) -> (u64, Vec<(Case, Vec<Violation>)>) {
        let mut n = 0u64;
        let mut fails: Vec<(Case, Vec<Violation>)> = vec![];
        // one failing example per (mnemonic, form, what) is enough
        let mut seen = std::collections::BTreeSet::new();
        let mut push = |case: Case, vs: Vec<Violation>, fails: &mut Vec<(Case, Vec<Violation>)>| {
            let vs: Vec<Violation> = vs
                .into_iter()
                .filter(|v| {
                    seen.insert((
                        v.sig.get("mnemonic").cloned().or_else(|| v.sig.get("operator").cloned()),
                        v.sig.get("form").cloned(),
                        v.sig.get("what").cloned(),
                        v.sig.get("x_class").cloned(),
                        v.sig.get("y_class").cloned(),
                    ))
                })
                .collect();
            if !vs.is_empty() {
                fails.push((case, vs));
            }
        };
        for (ins, form) in decode_table() {
            n += 1;
            let mut c = Ctx::default();
            let vs = C08::check_decode(&ins, &form, &mut c);
            for (k, x) in c.facts {
                ctx.fact(&k, x);
            }
            for (k, x) in c.skips {
                *ctx.skips.entry(k).or_insert(0) += x;
            }
            ctx.label(format!("mn:{}", ins.mn));
            push(Case::Decode { ins, form }, vs, &mut fails);
        }
        ctx.fact("decode_table_entries", n);
        for op in FOLD_OPS {
            for x in GRID {
                for y in GRID {
                    n += 1;
                    let mut c = Ctx::default();
                    let vs = C08::check_fold(op, x, y, &mut c);
                    ctx.fact("fold_comparisons", 1);
                    push(
                        Case::Fold {
                            op: op.to_string(),
                            x,
                            y,
                        },
                        vs,
                        &mut fails,
                    );
                }
            }
        }
        // end-to-end on a sub-grid
        const SUB: [i32; 12] = [0, 1, 5, 31, 32, 2047, 0x7fff_ffff, -1, -7, -2048, i32::MIN, 0x1234_5678];
        for mn in [
            "add", "sub", "and", "or", "xor", "sll", "srl", "sra", "slt", "sltu", "mul", "mulh",
            "mulhsu", "mulhu", "div", "divu", "rem", "remu", "addi", "andi", "ori", "xori", "slti",
            "sltiu", "slli", "srli", "srai",
        ] {
            for x in SUB {
                for y in SUB {
                    let y = if matches!(mn, "slli" | "srli" | "srai") { y & 31 } else { y };
                    for (zx, zy) in [(false, false), (true, false), (false, true), (true, true)] {
                        if (zx && x != SUB[1]) || (zy && y != SUB[1]) {
                            continue; // one representative per zero-register pattern
                        }
                        n += 1;
                        let mut c = Ctx::default();
                        let vs = C08::check_fold_e2e(mn, x, y, zx, zy, &mut c);
                        ctx.fact("fold_e2e_comparisons", 1);
                        for (k, v) in c.skips {
                            *ctx.skips.entry(k).or_insert(0) += v;
                        }
                        push(
                            Case::FoldE2E {
                                mn: mn.to_string(),
                                x,
                                y,
                                zx,
                                zy,
                            },
                            vs,
                            &mut fails,
                        );
                    }
                }
            }
        }
        (n, fails)
    }
}
