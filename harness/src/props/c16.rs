//! C16 — every analysis failure is explained at a real place in the user's files.

use std::collections::{BTreeMap, BTreeSet};

use serde::{Deserialize, Serialize};
use serde_json::{json, Value};

use crate::adapter;
use crate::choice::Choices;
use crate::gen::wild::{self, WildInfo, WildOpts};
use crate::gen;
use crate::model::*;
use crate::props::c03::label_operand;
use crate::runner::{Ctx, Prop, Tier, Violation};

#[derive(Clone, Debug, Serialize, Deserialize)]
pub struct Case {
    /// files as line lists, base file first
    pub files: Vec<(String, Vec<Line>)>,
    pub info: WildInfo,
}

pub struct C16;

impl Prop for C16 {
    type Case = Case;

    fn gen(ch: &mut Choices, tier: Tier) -> Option<Case> {
        let big = tier == Tier::Thorough;
        let o = WildOpts {
            max_funcs: if big { 4 } else { 2 },
            max_blocks: 3,
            max_body: 3,
            chaos: ch.chance(1, 3),
            c03_domain: false,
            faults: true,
            data: true,
        };
        let (lines, info) = wild::program(ch, &o);
        let files = if ch.chance(1, 5) {
            gen::split_include(&lines, ch, 2)
        } else {
            vec![("main.s".to_string(), lines)]
        };
        Some(Case { files, info })
    }

    fn check(case: &Case, ctx: &mut Ctx) -> Vec<Violation> {
        let mut out = vec![];
        let rendered: Vec<(String, Rendered)> = case
            .files
            .iter()
            .map(|(n, l)| (n.clone(), render_plain(l)))
            .collect();
        let files: adapter::Files = rendered.iter().map(|(n, r)| (n.clone(), r.text.clone())).collect();
        let all_text = files.iter().map(|(n, t)| format!("--- {n}\n{t}")).collect::<String>();
        for f in &case.info.faults {
            ctx.label(format!("fault:{f}"));
        }
        if case.files.len() > 1 {
            ctx.label("included-files");
        }
        ctx.nontrivial = !case.info.faults.is_empty();
        let fault = case.info.faults.first().cloned().unwrap_or_else(|| "none".into());
        // what the text says about labels
        let mut defs: BTreeMap<String, Vec<(usize, usize)>> = BTreeMap::new(); // label -> (file, line idx)
        let mut uses: BTreeMap<String, Vec<(usize, usize)>> = BTreeMap::new();
        for (fi, (_, lines)) in case.files.iter().enumerate() {
            for (li, l) in lines.iter().enumerate() {
                match l {
                    Line::Label(n) => defs.entry(n.clone()).or_default().push((fi, li)),
                    Line::Ins(i) => {
                        if let Some(l) = label_operand(i) {
                            uses.entry(l.clone()).or_default().push((fi, li));
                        }
                    }
                    _ => {}
                }
            }
        }
        let undefined: BTreeSet<String> = uses.keys().filter(|l| !defs.contains_key(*l)).cloned().collect();
        let duplicate: BTreeSet<String> = defs.iter().filter(|(_, v)| v.len() > 1).map(|(k, _)| k.clone()).collect();
        let lint = match adapter::lint(&files) {
            Ok(l) => l,
            Err(p) => {
                ctx.skip(&format!("c06_panic:{}", p.location()));
                return out;
            }
        };
        if lint.n_parse_errors > 0 {
            ctx.skip("generator_parse_error");
            return out;
        }
        let cfg_diags: Vec<_> = lint.diags.iter().filter(|d| d.code.starts_with("cfg:")).collect();
        let viol = |outcome: &str, msg: String| {
            Violation::new(format!("{msg}\nfaults injected: {:?}\n{all_text}", case.info.faults))
                .with("fault_kind", fault.clone())
                .with("outcome", outcome)
        };
        // slice of a diagnostic's range
        let slice_of = |d: &adapter::Diag| -> Option<(usize, String, usize)> {
            let fi = files.iter().position(|(n, _)| *n == d.file)?;
            let ti = TextIndex::new(&files[fi].1);
            if d.range.start.raw > d.range.end.raw || d.range.end.raw >= ti.len() {
                return None;
            }
            Some((fi, ti.slice(d.range.start.raw, d.range.end.raw + 1), ti.line_col(d.range.start.raw).0))
        };
        let model_line_at = |fi: usize, src_line: usize| -> Option<usize> {
            rendered[fi].1.map.iter().position(|ls| ls.line == src_line)
        };
        ctx.fact("programs_checked", 1);
        if !undefined.is_empty() || !duplicate.is_empty() {
            // an error naming the label at its occurrence is required
            let mut ok = false;
            let mut why = String::from("no label error was reported");
            for d in &cfg_diags {
                match d.code.as_str() {
                    "cfg:labels-not-defined" if !undefined.is_empty() => {
                        let named: Vec<&String> = undefined.iter().filter(|l| d.title.contains(l.as_str())).collect();
                        match slice_of(d) {
                            Some((fi, s, line)) if undefined.contains(&s) => {
                                // located on a use site of that label
                                let at_use = model_line_at(fi, line)
                                    .map(|li| uses.get(&s).map(|u| u.contains(&(fi, li))).unwrap_or(false))
                                    .unwrap_or(false);
                                if named.is_empty() || !d.title.contains(s.as_str()) {
                                    why = format!("error {:?} is located at the occurrence of {s:?} but does not name that label", d.title);
                                } else if !at_use {
                                    why = format!("error {:?} designates {s:?} at a place that is not a use of it", d.title);
                                } else {
                                    ok = true;
                                }
                            }
                            other => {
                                why = format!(
                                    "error {:?} is located at {:?} (file {:?}), which is not an occurrence of an undefined label",
                                    d.title, other, d.file
                                )
                            }
                        }
                    }
                    "cfg:duplicate-label" if !duplicate.is_empty() => match slice_of(d) {
                        Some((fi, s, line)) => {
                            let name = s.trim_end_matches(':').to_string();
                            let at_def = model_line_at(fi, line)
                                .map(|li| defs.get(&name).map(|u| u.contains(&(fi, li))).unwrap_or(false))
                                .unwrap_or(false);
                            if !duplicate.contains(&name) || !d.title.contains(&name) {
                                why = format!("error {:?} at {s:?} does not name a duplicated label", d.title);
                            } else if !at_def {
                                why = format!("error {:?} is not located at a definition of {name}", d.title);
                            } else {
                                ok = true;
                            }
                        }
                        None => why = format!("error {:?} has no usable location (file {:?}, {:?})", d.title, d.file, d.range),
                    },
                    _ => {}
                }
            }
            if !ok {
                out.push(viol(
                    "label-error-missing-or-misplaced",
                    format!("undefined labels {undefined:?}, duplicate labels {duplicate:?}: {why}; diagnostics: {:?}", cfg_diags.iter().map(|d| (&d.code, &d.title, &d.file, d.range.start.raw)).collect::<Vec<_>>()),
                ));
            }
        }
        // any error that stops the analysis must be specific and located in a user file
        for d in &cfg_diags {
            let generic = d.code == "cfg:unexpected-error" || d.code == "cfg:assertion-error" || d.title.to_lowercase().contains("unexpected error");
            if generic {
                out.push(viol("generic-error", format!("the analysis stopped with the generic error {:?}", d.title)));
            } else if d.file.is_empty() {
                out.push(viol("no-file", format!("error {:?} is attached to no file", d.title)));
            } else if slice_of(d).map(|s| s.1.trim().is_empty()).unwrap_or(true) {
                out.push(viol("no-location", format!("error {:?} has an empty or invalid location {:?}", d.title, d.range)));
            }
        }
        out.truncate(2);
        out
    }

    fn show(case: &Case) -> Value {
        json!({"files": case.files.iter().map(|(n, l)| (n.clone(), render_plain(l).text)).collect::<Vec<_>>(), "faults": case.info.faults})
    }
}
