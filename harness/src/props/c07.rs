//! C07 — no source line is silently dropped; a bad line affects only itself.
//!
//! Or-A: every line with content other than blanks/comment is covered by a
//! node or by a parse error located on it (lines computed here from raw
//! offsets). Or-B: parsing the file and parsing it with the defective lines
//! deleted give the same nodes and errors for all other lines.

use std::collections::BTreeMap;

use serde::{Deserialize, Serialize};
use serde_json::{json, Value};

use crate::adapter::{self, Files, Parsed};
use crate::choice::Choices;
use crate::gen::{self, syn, Defect};
use crate::model::*;
use crate::reflex;
use crate::runner::{Ctx, Prop, Tier, Violation};

#[derive(Clone, Debug, Serialize, Deserialize)]
pub struct Case {
    /// files as source lines (without line terminator)
    pub files: Vec<(String, Vec<String>)>,
    /// (file index, line index, defect)
    pub defects: Vec<(usize, usize, Defect)>,
    pub crlf: bool,
    pub final_newline: bool,
}

pub struct C07;

fn assemble(lines: &[String], crlf: bool, final_newline: bool) -> String {
    let nl = if crlf { "\r\n" } else { "\n" };
    let mut s = lines.join(nl);
    if final_newline && !lines.is_empty() {
        s.push_str(nl);
    }
    s
}

fn has_content(line: &str) -> bool {
    let t = line.trim_matches(|c: char| reflex::is_blank(c));
    !t.is_empty() && !t.starts_with('#')
}

/// (file, line) -> list of (what, detail) found there
type Cover = BTreeMap<(String, usize), Vec<(String, String)>>;

fn cover(parsed: &Parsed, files: &Files) -> Cover {
    let idx: BTreeMap<String, TextIndex> = files
        .iter()
        .map(|(n, t)| (n.clone(), TextIndex::new(t)))
        .collect();
    let mut m: Cover = BTreeMap::new();
    for n in &parsed.nodes {
        if n.kind == "ProgramEntry" {
            continue;
        }
        if let Some(ti) = idx.get(&n.file) {
            let (l, _) = ti.line_col(n.range.start.raw.min(ti.len()));
            m.entry((n.file.clone(), l))
                .or_default()
                .push((format!("node:{}", n.kind), n.shown.clone()));
        }
    }
    for e in &parsed.errors {
        if let Some(ti) = idx.get(&e.file) {
            let (l, _) = ti.line_col(e.range.start.raw.min(ti.len()));
            m.entry((e.file.clone(), l))
                .or_default()
                .push((format!("error:{}", e.code), e.title.clone()));
        }
    }
    m
}

impl C07 {
    fn check_case(case: &Case, ctx: &mut Ctx) -> Vec<Violation> {
        let mut out = vec![];
        let files: Files = case
            .files
            .iter()
            .map(|(n, ls)| (n.clone(), assemble(ls, case.crlf, case.final_newline)))
            .collect();
        for (_, _, d) in &case.defects {
            ctx.label(format!("defect:{}", d.kind));
        }
        if case.crlf {
            ctx.label("crlf");
        }
        if !case.final_newline {
            ctx.label("no-final-newline");
        }
        if case.files.len() > 1 {
            ctx.label("included-file");
        }
        let parsed = match adapter::parse(&files) {
            Ok(p) => p,
            Err(_) => {
                ctx.skip("c06_panic_in_parser");
                return out;
            }
        };
        let cov = cover(&parsed, &files);
        let defect_at = |fi: usize, li: usize| case.defects.iter().find(|d| d.0 == fi && d.1 == li);
        // Or-A
        for (fi, (name, lines)) in case.files.iter().enumerate() {
            for (li, line) in lines.iter().enumerate() {
                if !has_content(line) {
                    continue;
                }
                ctx.fact("lines_checked_for_coverage", 1);
                let c = cov.get(&(name.clone(), li));
                let is_include = line.trim_start().starts_with(".include");
                let is_last = li + 1 == lines.len();
                let covered = match c {
                    Some(v) => !v.is_empty(),
                    None => false,
                };
                if !covered && !is_include {
                    let d = defect_at(fi, li);
                    let prev_defect = li > 0 && defect_at(fi, li - 1).is_some();
                    out.push(
                        Violation::new(format!(
                            "line {} of {name} ({:?}) produced neither a node nor a parse error located on it{}\nfile:\n{}",
                            li + 1,
                            line,
                            if prev_defect { " (the line before it is malformed)" } else { "" },
                            files[fi].1
                        ))
                        .with("oracle", "A")
                        .with("line_kind", d.map(|d| d.2.kind.clone()).unwrap_or_else(|| "good".into()))
                        .with(
                            "position",
                            if is_last && !case.final_newline {
                                "last-without-newline"
                            } else if prev_defect {
                                "after-malformed-line"
                            } else {
                                "inner"
                            },
                        ),
                    );
                } else if let Some(d) = defect_at(fi, li) {
                    // a defective line must be *named by an error*, a node alone is not enough
                    let has_err = c.map(|v| v.iter().any(|x| x.0.starts_with("error:"))).unwrap_or(false);
                    if d.2.expect_error && !has_err {
                        out.push(
                            Violation::new(format!(
                                "malformed line {} of {name} ({:?}, {}) was accepted without a parse error: {:?}",
                                li + 1,
                                line,
                                d.2.kind,
                                c
                            ))
                            .with("oracle", "A")
                            .with("line_kind", d.2.kind.clone())
                            .with("position", "no-error"),
                        );
                    }
                }
            }
        }
        // Or-A': what the parser found must also be what is reported (the library entry point sorts
        // and merges the list before it is shown): checked for every multi-file case and a sample of the others
        if case.files.len() > 1 || case.files[0].1.len() % 8 == 0 {
            match adapter::run_entry(&files, &[]) {
                Ok(reported) => {
                    ctx.fact("reported_lists_compared", 1);
                    for e in &parsed.errors {
                        if !reported.iter().any(|d| d.file == e.file && d.range == e.range && d.title == e.title) {
                            let (fi, li) = files
                                .iter()
                                .position(|(n, _)| *n == e.file)
                                .map(|fi| (fi, crate::model::TextIndex::new(&files[fi].1).line_col(e.range.start.raw).0))
                                .unwrap_or((0, 0));
                            out.push(
                                Violation::new(format!(
                                    "the parse error {:?} on line {} of {} is found by the parser but missing from the reported diagnostics {:?}",
                                    e.title,
                                    li + 1,
                                    e.file,
                                    reported.iter().map(|d| (&d.file, d.range.start.line + 1, &d.title)).collect::<Vec<_>>()
                                ))
                                .with("oracle", "A")
                                .with("line_kind", defect_at(fi, li).map(|d| d.2.kind.clone()).unwrap_or_else(|| "good".into()))
                                .with("position", "not-reported"),
                            );
                            break;
                        }
                    }
                }
                Err(_) => ctx.skip("c06_panic_in_entry_point"),
            }
        }
        // Or-B: delete the defective lines and compare everything else
        if !case.defects.is_empty() {
            let mut remap: BTreeMap<(String, usize), usize> = BTreeMap::new(); // original line -> line in reduced file
            let reduced: Files = case
                .files
                .iter()
                .enumerate()
                .map(|(fi, (n, ls))| {
                    let mut kept = vec![];
                    for (li, l) in ls.iter().enumerate() {
                        if defect_at(fi, li).is_none() {
                            remap.insert((n.clone(), li), kept.len());
                            kept.push(l.clone());
                        }
                    }
                    (n.clone(), assemble(&kept, case.crlf, case.final_newline))
                })
                .collect();
            match adapter::parse(&reduced) {
                Err(_) => ctx.skip("c06_panic_in_parser_reduced"),
                Ok(p2) => {
                    let cov2 = cover(&p2, &reduced);
                    for (fi, (name, lines)) in case.files.iter().enumerate() {
                        for (li, line) in lines.iter().enumerate() {
                            if defect_at(fi, li).is_some() {
                                continue;
                            }
                            let a = cov.get(&(name.clone(), li)).cloned().unwrap_or_default();
                            let rl = remap[&(name.clone(), li)];
                            let b = cov2.get(&(name.clone(), rl)).cloned().unwrap_or_default();
                            ctx.fact("lines_compared_with_reduced_file", 1);
                            if a != b {
                                let prev_defect = li > 0 && defect_at(fi, li - 1).is_some();
                                let pd = if prev_defect {
                                    defect_at(fi, li - 1).map(|d| d.2.kind.clone()).unwrap_or_default()
                                } else {
                                    "none".into()
                                };
                                out.push(
                                    Violation::new(format!(
                                        "line {} of {name} ({:?}) is parsed as {:?} but as {:?} once the malformed line(s) {:?} are deleted\nfile:\n{}",
                                        li + 1,
                                        line,
                                        a,
                                        b,
                                        case.defects.iter().map(|d| (d.1 + 1, d.2.text.clone())).collect::<Vec<_>>(),
                                        files[fi].1
                                    ))
                                    .with("oracle", "B")
                                    .with("prev_defect", pd)
                                    .with(
                                        "position",
                                        if prev_defect { "after-malformed-line" } else { "elsewhere" },
                                    ),
                                );
                                break;
                            }
                        }
                    }
                }
            }
        }
        // non-triviality: a defective line that is not the last with >= 3 good lines after it
        ctx.nontrivial = case.defects.iter().any(|(fi, li, _)| {
            let ls = &case.files[*fi].1;
            ls.iter()
                .enumerate()
                .skip(li + 1)
                .filter(|(k, l)| has_content(l) && defect_at(*fi, *k).is_none())
                .count()
                >= 3
        }) || (!case.final_newline || case.crlf);
        out.truncate(3);
        out
    }
}

impl Prop for C07 {
    type Case = Case;

    fn gen(ch: &mut Choices, tier: Tier) -> Option<Case> {
        let big = tier == Tier::Thorough;
        let o = syn::SynOpts {
            max_funcs: if big { 3 } else { 2 },
            max_body: if big { 10 } else { 5 },
            data: true,
            odd_forms: true,
        };
        let (mut lines, _) = syn::program(ch, &o);
        // optionally end with a statement whose parsing looks ahead
        if ch.chance(1, 3) {
            let extra = match ch.below(4) {
                0 => ins("lw", vec![r(5), i(ch.int_in(0, 64))]),
                1 => Line::Dir(".word".into(), vec![i(1), i(2)]),
                2 => ins("jalr", vec![r(5)]),
                _ => ins("sw", vec![r(5), i(8)]),
            };
            lines.push(extra);
        }
        let mut defects = if ch.chance(5, 6) {
            gen::inject_defects(&mut lines, ch, 3)
        } else {
            vec![]
        };
        let split = ch.chance(1, 4);
        let mut files = if split {
            gen::split_include(&lines, ch, 2)
        } else {
            vec![("main.s".to_string(), lines.clone())]
        };
        // the same malformed line at the same place (first line) of two files
        if files.len() >= 2 && ch.chance(1, 3) {
            let d = gen::defect_line(ch);
            if d.expect_error && !defects.iter().any(|(_, x)| x.text == d.text) {
                let raw = Line::Raw(format!("    {}", d.text));
                let k = 1 + ch.below(files.len() - 1);
                files[0].1.insert(0, raw.clone());
                files[k].1.insert(0, raw);
                defects.push((0, d));
            }
        }
        // render each file in canonical style, one statement per line
        let mut out_files = vec![];
        let mut out_defects = vec![];
        for (fi, (name, ls)) in files.iter().enumerate() {
            let rd = render_plain(ls);
            let mut src: Vec<String> = rd.text.split('\n').map(|s| s.to_string()).collect();
            if src.last().map(|s| s.is_empty()).unwrap_or(false) {
                src.pop();
            }
            for (k, l) in ls.iter().enumerate() {
                if let Line::Raw(t) = l {
                    if let Some((_, d)) = defects.iter().find(|(_, d)| format!("    {}", d.text) == *t) {
                        out_defects.push((fi, rd.map[k].line, d.clone()));
                    }
                }
            }
            out_files.push((name.clone(), src));
        }
        out_defects.sort_by(|a, b| (a.0, a.1).cmp(&(b.0, b.1)));
        out_defects.dedup_by(|a, b| a.0 == b.0 && a.1 == b.1);
        Some(Case {
            files: out_files,
            defects: out_defects,
            crlf: ch.chance(1, 6),
            final_newline: !ch.chance(1, 4),
        })
    }

    fn check(case: &Case, ctx: &mut Ctx) -> Vec<Violation> {
        C07::check_case(case, ctx)
    }

    fn show(case: &Case) -> Value {
        json!({
            "files": case.files.iter().map(|(n, l)| (n.clone(), l.join("\n"))).collect::<Vec<_>>(),
            "defective_lines": case.defects.iter().map(|d| (case.files[d.0].0.clone(), d.1 + 1, d.2.text.clone())).collect::<Vec<_>>(),
            "crlf": case.crlf, "final_newline": case.final_newline
        })
    }
}
