//! C06 — linting any input terminates without crashing.

use std::time::Duration;

use serde::{Deserialize, Serialize};
use serde_json::{json, Value};

use crate::adapter::{self, AnalyzeOpts};
use crate::choice::Choices;
use crate::cli;
use crate::gen::text;
use crate::runner::{Ctx, Prop, Tier, Violation};

#[derive(Clone, Debug, Serialize, Deserialize)]
pub struct Case {
    pub files: Vec<(String, String)>,
    pub mode: String,
    /// also run the command line tool in this output mode ("" = library only)
    pub cli_mode: String,
    pub release: bool,
}

pub struct C06;

pub const CLI_MODES: [&str; 9] = [
    "pretty", "pretty-color", "compact", "json", "yaml", "debug", "all-files", "no-output", "compact-all",
];

fn cli_args(mode: &str) -> Vec<&'static str> {
    match mode {
        "pretty" => vec!["--no-color"],
        "pretty-color" => vec![],
        "compact" => vec!["--compact", "--no-color"],
        "json" => vec!["--json"],
        "yaml" => vec!["--yaml", "--no-color"],
        "debug" => vec!["--debug", "--no-color"],
        "all-files" => vec!["--all-files", "--no-color"],
        "no-output" => vec!["--no-output"],
        _ => vec!["--compact", "--all-files"],
    }
}

impl C06 {
    pub fn check_case(case: &Case, ctx: &mut Ctx) -> Vec<Violation> {
        ctx.label(format!("mode:{}", case.mode.split(':').next().unwrap_or("")));
        let size: usize = case.files.iter().map(|f| f.1.chars().count()).sum();
        let shown: String = case
            .files
            .iter()
            .map(|(n, t)| format!("--- {n} ({} chars)\n{}\n", t.chars().count(), t.chars().take(1500).collect::<String>()))
            .collect();
        let profile = if cfg!(debug_assertions) { "checked" } else { "release" };
        let mk = |stage: &str, what: &str, msg: String| {
            Violation::new(format!("{msg}\n{shown}"))
                .with("stage", stage)
                .with("what", what)
        };
        // scaling families go through the command line tool first: it runs under a CPU-time
        // limit, so super-polynomial work is reported instead of stalling this process
        let cli_first = case.mode.starts_with("family") && !case.cli_mode.is_empty();
        if cli_first {
            let out = Self::cli_part(case, ctx, size, &mk);
            if !out.is_empty() {
                return out;
            }
        }
        // (1) the library entry point
        adapter::hooks_set_sweep_limit(Some(50_000));
        let res = adapter::run_entry(&case.files, &[]);
        adapter::hooks_set_sweep_limit(None);
        let mut out = vec![];
        match res {
            Ok(d) => {
                ctx.fact("library_runs", 1);
                if !d.is_empty() {
                    ctx.label("produced-diagnostics");
                }
            }
            Err(p) if p.is_sweep_limit() => out.push(mk(
                "analysis",
                "no-fixed-point",
                format!("the analysis made more than 50000 sweeps on a {size}-character input ({profile} profile)"),
            )),
            Err(p) => out.push(
                mk("library", "panic", format!("RVParser::run panicked ({profile} profile): {}", p.message)).with("panic_location", p.location()),
            ),
        }
        // (2) staged pipeline: deepest stage reached, work counters
        if out.is_empty() {
            match adapter::analyze(&case.files, &AnalyzeOpts { extra: vec![], want_yaml: case.cli_mode == "yaml", sweep_limit: Some(50_000) }) {
                Ok(a) => {
                    let stage = if a.cfg.is_some() {
                        "reached:lints"
                    } else if a.cfg_error.is_some() {
                        "reached:cfg-error"
                    } else {
                        "reached:parser"
                    };
                    ctx.label(stage);
                    ctx.nontrivial = a.cfg.is_some() || a.cfg_error.is_some() || !a.parse_errors.is_empty() || case.mode.starts_with("family");
                    if let Some(cfg) = &a.cfg {
                        let n = cfg.nodes.len() as u64;
                        ctx.max("nodes", n);
                        ctx.max("sweeps_available_x100_per_node", a.work.sweeps_available * 100 / n.max(1));
                        ctx.max("node_visits_x100_per_node_squared", a.work.node_visits * 100 / (n * n).max(1));
                        ctx.fact("work_bounds_checked", 1);
                        if a.work.sweeps_available > 4 * (4 + 2 * n) || a.work.sweeps_liveness > 4 + 2 * n {
                            out.push(mk(
                                "analysis",
                                "work-bound",
                                format!("{} value-analysis sweeps and {} liveness sweeps for {n} nodes", a.work.sweeps_available, a.work.sweeps_liveness),
                            ));
                        }
                    }
                }
                Err(p) if p.is_sweep_limit() => out.push(mk("analysis", "no-fixed-point", format!("more than 50000 sweeps on a {size}-character input"))),
                Err(p) => out.push(mk("pipeline", "panic", format!("the staged pipeline panicked: {}", p.message)).with("panic_location", p.location())),
            }
        }
        // (3) the command line tool
        if !case.cli_mode.is_empty() && out.is_empty() && !cli_first {
            out = Self::cli_part(case, ctx, size, &mk);
        }
        out
    }

    fn cli_part(case: &Case, ctx: &mut Ctx, size: usize, mk: &dyn Fn(&str, &str, String) -> Violation) -> Vec<Violation> {
        let mut out = vec![];
        {
            let dir = cli::scratch("c06", crate::runner::next_serial());
            let _ = std::fs::create_dir_all(dir.join("sub"));
            let _ = std::fs::create_dir_all(dir.join("sub2"));
            for (n, t) in &case.files {
                let _ = std::fs::write(dir.join(n), t);
            }
            let mut args = vec!["lint", case.files[0].0.as_str()];
            args.extend(cli_args(&case.cli_mode));
            let r = cli::run_rva(case.release, &args, &dir, Duration::from_secs(120));
            let _ = std::fs::remove_dir_all(&dir);
            ctx.fact("cli_invocations", 1);
            ctx.label(format!("cli:{}", case.cli_mode));
            let prof = if case.release { "release" } else { "dev" };
            if r.cpu_limit_hit() {
                out.push(mk("cli", "cpu-limit", format!("rva {} ({prof}) used more than 10 s of CPU time on a {size}-character input", args.join(" "))).with("cli_mode", case.cli_mode.clone()));
            } else if r.timed_out {
                ctx.skip("cli_wall_clock_watchdog_inconclusive");
            } else if !r.clean_exit() || !r.stderr.is_empty() {
                let loc = r
                    .stderr
                    .lines()
                    .find(|l| l.contains("panicked at"))
                    .map(|l| l.split("panicked at ").nth(1).unwrap_or("").trim_end_matches(':').to_string())
                    .unwrap_or_default();
                out.push(
                    mk(
                        "cli",
                        "crash",
                        format!(
                            "rva {} ({prof}) ended with status {:?} signal {:?}; stderr: {}",
                            args.join(" "),
                            r.status,
                            r.signal,
                            r.stderr.chars().take(400).collect::<String>()
                        ),
                    )
                    .with("cli_mode", case.cli_mode.clone())
                    .with("panic_location", loc),
                );
            }
        }
        out
    }
}

impl Prop for C06 {
    type Case = Case;

    fn gen(ch: &mut Choices, tier: Tier) -> Option<Case> {
        let h = text::hostile(ch, tier == Tier::Thorough);
        let p = if h.mode == "include-graph" { 5 } else { 25 };
        let cli_mode = if ch.chance(1, p) { ch.pick_str(&CLI_MODES).to_string() } else { String::new() };
        Some(Case {
            files: h.files,
            mode: h.mode,
            cli_mode,
            release: ch.chance(1, 2),
        })
    }

    fn check(case: &Case, ctx: &mut Ctx) -> Vec<Violation> {
        C06::check_case(case, ctx)
    }

    fn show(case: &Case) -> Value {
        json!({"mode": case.mode, "cli_mode": case.cli_mode, "files": case.files.iter().map(|(n, t)| (n.clone(), t.chars().take(600).collect::<String>())).collect::<Vec<_>>()})
    }

    fn enumerate(tier: Tier, ctx: &mut Ctx) -> (u64, Vec<(Case, Vec<Violation>)>) {
        // structural scaling families at fixed sizes, every CLI mode on a few of them
        let sizes: &[usize] = if tier == Tier::Thorough { &[1, 10, 100, 1000, 10_000, 100_000] } else { &[1, 10, 100, 1000, 20_000] };
        let mut n = 0;
        let mut fails = vec![];
        let mut run = |case: Case, ctx: &mut Ctx, fails: &mut Vec<(Case, Vec<Violation>)>| {
            crate::runner::case_started();
            let t_cpu = crate::runner::process_cpu_ms();
            let mut c = Ctx::default();
            let vs = C06::check_case(&case, &mut c);
            for (k, v) in c.facts {
                ctx.fact(&k, v);
            }
            for (k, v) in c.maxima {
                ctx.max(&k, v);
            }
            for (k, v) in c.skips {
                *ctx.skips.entry(k).or_insert(0) += v;
            }
            let used = crate::runner::process_cpu_ms().saturating_sub(t_cpu);
            ctx.max("enumerated_case_cpu_ms", used);
            if used > 5000 {
                eprintln!("slow enumerated case {} ({} profile): {used} ms of CPU time", case.mode, if cfg!(debug_assertions) { "checked" } else { "release" });
            }
            if !vs.is_empty() {
                fails.push((case, vs));
            }
        };
        for kind in 0..16 {
            for (si, size) in sizes.iter().enumerate() {
                // analysis-heavy families stay small: their cost is the subject of the work bound, not of a stress test
                let size = if kind == 9 { (*size).min(if tier == Tier::Thorough { 400 } else { 250 }) } else if (6..=8).contains(&kind) { (*size).min(if tier == Tier::Thorough { 2000 } else { 400 }) } else { *size };
                n += 1;
                run(
                    Case {
                        files: vec![("main.s".into(), text::family(kind, size))],
                        mode: format!("family:{kind}:{size}"),
                        cli_mode: if si == 2 { CLI_MODES[kind % CLI_MODES.len()].to_string() } else { String::new() },
                        release: kind % 2 == 0,
                    },
                    ctx,
                    &mut fails,
                );
            }
        }
        // searches of the lints over many equal-length branches: through the CLI, under the CPU-time limit
        for size in [4usize, 12, 20, 26, 32] {
            n += 1;
            run(
                Case {
                    files: vec![("main.s".into(), text::family(16, size))],
                    mode: format!("family:16:{size}"),
                    cli_mode: "compact".into(),
                    release: true,
                },
                ctx,
                &mut fails,
            );
        }
        // extreme immediates around the stack pointer: the whole grid
        for k in 0..(12 * 12 * 12) {
            n += 1;
            run(
                Case {
                    files: vec![("main.s".into(), text::family(17, k))],
                    mode: format!("family:17:{k}"),
                    cli_mode: String::new(),
                    release: false,
                },
                ctx,
                &mut fails,
            );
        }
        // Unicode white space x position, through the pretty printer (and the other modes)
        for k in 0..(7 * 8) {
            for mode in ["pretty", "compact", "json"] {
                n += 1;
                run(
                    Case {
                        files: vec![("main.s".into(), text::family(18, k))],
                        mode: format!("family:18:{k}"),
                        cli_mode: mode.into(),
                        release: k % 2 == 0,
                    },
                    ctx,
                    &mut fails,
                );
            }
        }
        // runs of one character / one token, through the CLI first (a stack overflow there is an abort of the child, not of this worker)
        for k in 0..(text::CHAR_TABLE.len() * 4) {
            n += 1;
            let mode = ["compact", "pretty", "json"][k % 3];
            run(
                Case {
                    files: vec![("main.s".into(), text::family(19, k))],
                    mode: format!("family:19:{k}"),
                    cli_mode: mode.into(),
                    release: k % 2 == 0,
                },
                ctx,
                &mut fails,
            );
        }
        let n_tokens = text::WORDS.len() + text::LITERALS.len() + text::PUNCT.len();
        for k in 0..(n_tokens * 3) {
            n += 1;
            run(
                Case {
                    files: vec![("main.s".into(), text::family(21, k))],
                    mode: format!("family:21:{k}"),
                    cli_mode: if k >= n_tokens * 2 || k % 7 == 0 { ["compact", "pretty", "json"][k % 3].into() } else { String::new() },
                    release: k % 2 == 0,
                },
                ctx,
                &mut fails,
            );
        }
        // long lines ending in multi-byte characters, in the mode that prints source excerpts (and the others)
        for k in 0..(4 * 5 * 5) {
            for mode in ["pretty", "compact"] {
                n += 1;
                run(
                    Case {
                        files: vec![("main.s".into(), text::family(20, k))],
                        mode: format!("family:20:{k}"),
                        cli_mode: mode.into(),
                        release: k % 2 == 1,
                    },
                    ctx,
                    &mut fails,
                );
            }
        }
        // include graphs on disk: self-inclusion and cycles under every spelling of the path
        for (k, (a_inc, b_inc)) in [
            ("main.s", ""),
            ("./main.s", ""),
            ("sub/../main.s", ""),
            ("b.s", "main.s"),
            ("./b.s", "./main.s"),
            ("./b.s", "sub/../b.s"),
            ("sub/../b.s", "./main.s"),
            ("b.s", "./b.s"),
            ("missing.s", ""),
            ("./sub", ""),
            // two different spellings of the file itself (every level doubles the work if neither is recognised)
            ("sub/../main.s|sub2/../main.s", ""),
            ("sub/../b.s|sub2/../b.s", "sub/../main.s|sub2/../b.s"),
        ]
        .iter()
        .enumerate()
        {
            for mode in ["compact", "pretty", "json"] {
                n += 1;
                let incs = |spec: &str| spec.split('|').map(|p| format!(".include \"{p}\"\n")).collect::<String>();
                let mut files = vec![("main.s".to_string(), format!("main:\n    li a0, 1\n{}    li a7, 10\n    ecall\n", incs(a_inc)))];
                if !b_inc.is_empty() {
                    files.push(("b.s".to_string(), format!("helper:\n    li t0, 2\n{}", incs(b_inc))));
                } else if *a_inc == "b.s" {
                    files.push(("b.s".to_string(), "helper:\n    li t0, 2\n".to_string()));
                }
                run(
                    Case {
                        files,
                        mode: format!("include-graph:fixed:{k}"),
                        cli_mode: mode.into(),
                        release: k % 2 == 0,
                    },
                    ctx,
                    &mut fails,
                );
            }
        }
        ctx.fact("structural_family_cases", n);
        (n, fails)
    }
}
