//! C05 — each kind of convention violation is reported where it occurs.
//!
//! A clean base program (analyzer-clean, else skipped) gets exactly one
//! injected violation of one of 14 classes; the mutated program must get a
//! diagnostic of the class's kind located in the class's acceptance set.
//! Where the fault is dynamically observable the convention monitor must
//! confirm it on the mutated program.

use std::collections::BTreeSet;

use serde::{Deserialize, Serialize};
use serde_json::{json, Value};

use crate::adapter::{self, single};
use crate::choice::Choices;
use crate::gen::clean::{self, CleanInfo, CleanOpts, FuncMeta};
use crate::machine::Inputs;
use crate::model::*;
use crate::monitor;
use crate::runner::{Ctx, Prop, Tier, Violation};

pub const CLASSES: [&str; 18] = [
    "modify-saved-register-after-restore",
    "unassigned-saved-register-in-main",
    "modify-unsaved-saved-register",
    "sp-not-restored",
    "ra-not-restored",
    "temporary-read-after-call",
    "unassigned-temporary-in-main",
    "unassigned-temporary-in-function",
    "unassigned-saved-register-in-function",
    "dead-assignment",
    "write-to-zero",
    "stack-access-at-or-above-entry-sp",
    "instruction-in-data-segment",
    "unknown-ecall-number",
    "unreachable-code",
    "jump-into-function",
    "fallthrough-into-function",
    "function-first-in-program",
];

#[derive(Clone, Debug, Serialize, Deserialize)]
pub struct Case {
    pub base: Vec<Line>,
    pub mutated: Vec<Line>,
    pub class: String,
    pub expect_code: String,
    /// lines (indices into `mutated`) on which the diagnostic may be located
    pub accept_lines: Vec<usize>,
    /// register the diagnostic must be about, when it designates an operand
    pub accept_reg: Option<u8>,
    /// complaint kinds of the monitor that confirm the fault (empty = not dynamically observable)
    pub monitor_kinds: Vec<String>,
    pub inputs: Vec<Inputs>,
    /// also lint the program cut into two files: source lines a..b go to an included file
    #[serde(default)]
    pub cut: Option<(usize, usize)>,
}

pub struct C05;

fn regs_used(lines: &[Line], span: (usize, usize)) -> BTreeSet<u8> {
    let mut s = BTreeSet::new();
    for l in &lines[span.0..span.1] {
        if let Line::Ins(i) = l {
            for o in &i.ops {
                match o {
                    Opd::R(x) => {
                        s.insert(*x);
                    }
                    Opd::M(_, b) => {
                        s.insert(*b);
                    }
                    _ => {}
                }
            }
        }
    }
    s
}

pub struct Mutation {
    pub lines: Vec<Line>,
    expect: &'static str,
    accept: Vec<usize>,
    reg: Option<u8>,
    monitor: Vec<&'static str>,
}

/// The first read of `t`: either `add acc, acc, t`, or an instruction that reads *and* writes
/// `t` (`addi t, t, 1`) followed by the use of the result.
fn first_use(acc: u8, t: u8, ch: &mut Choices) -> Vec<Line> {
    match ch.below(3) {
        0 => vec![ins("add", vec![r(acc), r(acc), r(t)])],
        1 => vec![ins("addi", vec![r(t), r(t), i(ch.int_in(1, 4))]), ins("add", vec![r(acc), r(acc), r(t)])],
        _ => vec![ins("add", vec![r(t), r(t), r(acc)]), ins("xor", vec![r(acc), r(acc), r(t)])],
    }
}

fn insert(lines: &[Line], at: usize, new: Vec<Line>) -> Vec<Line> {
    let mut v = lines[..at].to_vec();
    v.extend(new);
    v.extend_from_slice(&lines[at..]);
    v
}

fn pick_func<'a>(info: &'a CleanInfo, ch: &mut Choices, pred: impl Fn(&FuncMeta) -> bool) -> Option<&'a FuncMeta> {
    let c: Vec<&FuncMeta> = info.funcs.iter().filter(|f| pred(f)).collect();
    if c.is_empty() {
        None
    } else {
        Some(*ch.pick(&c))
    }
}

pub fn mutate(class: &str, lines: &[Line], info: &CleanInfo, ch: &mut Choices) -> Option<Mutation> {
    let main = &info.funcs[0];
    match class {
        "modify-unsaved-saved-register" => {
            let f = pick_func(info, ch, |f| f.name != "main")?;
            let used = regs_used(lines, f.span);
            let free: Vec<u8> = SAVED.iter().copied().filter(|s| !used.contains(s)).collect();
            if free.is_empty() {
                return None;
            }
            let s = *ch.pick(&free);
            let acc = f.locals[0];
            let at = f.body_start;
            let new = vec![ins("li", vec![r(s), i(ch.int_in(1, 9))]), ins("add", vec![r(acc), r(acc), r(s)])];
            Some(Mutation {
                lines: insert(lines, at, new),
                expect: "overwrite-callee-saved-register",
                accept: vec![at],
                reg: Some(s),
                monitor: vec!["saved-register-not-restored"],
            })
        }
        "sp-not-restored" => {
            let f = pick_func(info, ch, |f| f.name != "main" && !f.epilogue_sp.is_empty())?;
            let at = *ch.pick(&f.epilogue_sp);
            let mut v = lines.to_vec();
            // every instruction of the function that writes sp is an acceptable location
            let mut accept: Vec<usize> = vec![];
            if ch.chance(1, 2) {
                v.remove(at);
                for (k, l) in v.iter().enumerate().take(f.span.1 - 1).skip(f.span.0) {
                    if matches!(l, Line::Ins(i) if matches!(i.ops.first(), Some(Opd::R(2))) && i.mn == "addi") {
                        accept.push(k);
                    }
                }
            } else {
                let wrong = f.frame - 4;
                if wrong == 0 {
                    return None;
                }
                v[at] = ins("addi", vec![r(SP), r(SP), i(wrong)]);
                for (k, l) in v.iter().enumerate().take(f.span.1).skip(f.span.0) {
                    if matches!(l, Line::Ins(i) if matches!(i.ops.first(), Some(Opd::R(2))) && i.mn == "addi") {
                        accept.push(k);
                    }
                }
            }
            Some(Mutation {
                lines: v,
                expect: "overwrite-callee-saved-register",
                accept,
                reg: Some(SP),
                monitor: vec!["sp-not-restored", "return-to-wrong-address", "trap"],
            })
        }
        "ra-not-restored" => {
            let f = pick_func(info, ch, |f| !f.ra_restores.is_empty() && !f.call_lines.is_empty())?;
            let mut v = lines.to_vec();
            // remove every restore of ra (all epilogues), keep the save
            let mut rm = f.ra_restores.clone();
            rm.sort_unstable_by(|a, b| b.cmp(a));
            for k in &rm {
                v.remove(*k);
            }
            let shift = |x: usize| x - rm.iter().filter(|k| **k < x).count();
            let accept: Vec<usize> = f.call_lines.iter().map(|c| shift(*c)).collect();
            Some(Mutation {
                lines: v,
                expect: "overwrite-callee-saved-register",
                accept,
                reg: Some(RA),
                monitor: vec!["return-to-wrong-address", "trap"],
            })
        }
        "temporary-read-after-call" => {
            let f = pick_func(info, ch, |f| !f.call_lines.is_empty())?;
            let used = regs_used(lines, f.span);
            let free: Vec<u8> = TEMPS.iter().copied().filter(|t| !used.contains(t)).collect();
            if free.is_empty() {
                return None;
            }
            let t = *ch.pick(&free);
            let call = *ch.pick(&f.call_lines);
            // find the start of the call sequence (argument setup) and the end (result consumption)
            let mut start = call;
            while start > f.body_start
                && matches!(&lines[start - 1], Line::Ins(i) if matches!(i.ops.first(), Some(Opd::R(x)) if (10..=13).contains(x)) && matches!(i.mn.as_str(), "mv" | "li" | "addi"))
            {
                start -= 1;
            }
            let mut end = call + 1;
            if matches!(&lines[end], Line::Ins(i) if i.ops.iter().any(|o| *o == Opd::R(A0)) && matches!(i.mn.as_str(), "add" | "xor" | "sub")) {
                end += 1;
            }
            let acc = f.locals[0];
            let mut v = insert(lines, end, first_use(acc, t, ch));
            v = insert(&v, start, vec![ins("li", vec![r(t), i(ch.int_in(1, 9))])]);
            Some(Mutation {
                lines: v,
                expect: "invalid-use-after-call",
                accept: vec![end + 1],
                reg: Some(t),
                monitor: vec!["read-undefined-register"],
            })
        }
        "modify-saved-register-after-restore" => {
            // one of the epilogues (the final one or an early return) changes a saved register again after restoring it
            let f = pick_func(info, ch, |f| f.name != "main" && !f.saved.is_empty() && f.frame != 0)?;
            let restores: Vec<(usize, u8)> = f
                .frame_access
                .iter()
                .filter_map(|k| match &lines[*k] {
                    Line::Ins(i) if i.mn == "lw" => match i.ops.first() {
                        Some(Opd::R(x)) if f.saved.contains(x) && *k >= f.body_start => Some((*k, *x)),
                        _ => None,
                    },
                    _ => None,
                })
                .collect();
            // only restores inside an epilogue: followed (after further restores) by the sp adjustment
            let restores: Vec<(usize, u8)> = restores
                .into_iter()
                .filter(|(k, _)| {
                    let mut j = *k + 1;
                    while j < f.span.1 && matches!(&lines[j], Line::Ins(i) if i.mn == "lw" && matches!(i.ops.get(1), Some(Opd::M(_, 2)))) {
                        j += 1;
                    }
                    f.epilogue_sp.contains(&j)
                })
                .collect();
            if restores.is_empty() {
                return None;
            }
            let (k, s) = *ch.pick(&restores);
            let new = if ch.chance(1, 2) { ins("li", vec![r(s), i(ch.int_in(1, 9))]) } else { ins("addi", vec![r(s), r(s), i(ch.int_in(1, 9))]) };
            Some(Mutation {
                lines: insert(lines, k + 1, vec![new]),
                expect: "overwrite-callee-saved-register",
                accept: vec![k + 1],
                reg: Some(s),
                monitor: vec!["saved-register-not-restored"],
            })
        }
        "unassigned-temporary-in-main" | "unassigned-saved-register-in-main" | "unassigned-temporary-in-function" | "unassigned-saved-register-in-function" => {
            let in_main = class.ends_with("-in-main");
            let f = if in_main { main } else { pick_func(info, ch, |f| f.name != "main")? };
            let used = regs_used(lines, f.span);
            let pool: &[u8] = if class.starts_with("unassigned-saved-register") { &SAVED } else { &TEMPS };
            let free: Vec<u8> = pool.iter().copied().filter(|t| !used.contains(t)).collect();
            if free.is_empty() {
                return None;
            }
            let t = *ch.pick(&free);
            let acc = f.locals[0];
            let at = f.body_start;
            Some(Mutation {
                lines: insert(lines, at, first_use(acc, t, ch)),
                expect: "invalid-use-before-assignment",
                accept: vec![at],
                reg: Some(t),
                monitor: vec!["read-undefined-register", "read-unowned-saved-register"],
            })
        }
        "dead-assignment" => {
            let f = pick_func(info, ch, |_| true)?;
            let used = regs_used(lines, f.span);
            let free: Vec<u8> = TEMPS.iter().copied().filter(|t| !used.contains(t)).collect();
            if free.is_empty() {
                return None;
            }
            let t = *ch.pick(&free);
            let at = f.body_start;
            let new = if ch.chance(1, 2) {
                ins("li", vec![r(t), i(ch.int_in(0, 50))])
            } else {
                ins("addi", vec![r(t), r(f.locals[0]), i(1)])
            };
            Some(Mutation {
                lines: insert(lines, at, vec![new]),
                expect: "dead-assignment",
                accept: vec![at],
                reg: Some(t),
                monitor: vec![],
            })
        }
        "write-to-zero" => {
            let f = pick_func(info, ch, |_| true)?;
            let a = f.locals[0];
            let b = *ch.pick(&f.locals);
            let at = f.body_start;
            let new = match ch.below(3) {
                0 => ins("add", vec![r(ZERO), r(a), r(b)]),
                1 => ins("addi", vec![r(ZERO), r(a), i(1)]),
                _ => ins("li", vec![r(ZERO), i(5)]),
            };
            Some(Mutation {
                lines: insert(lines, at, vec![new]),
                expect: "save-to-zero",
                accept: vec![at],
                reg: Some(ZERO),
                monitor: vec![],
            })
        }
        "stack-access-at-or-above-entry-sp" => {
            let f = pick_func(info, ch, |f| f.name != "main" && f.frame > 0)?;
            let acc = f.locals[0];
            let off = f.frame + 4 * ch.int_in(0, 2);
            let at = f.body_start;
            let (new, mon): (Vec<Line>, Vec<&'static str>) = if ch.chance(1, 2) {
                // stores of any width and of any source register, the zero register included
                let src = if ch.chance(1, 3) { ZERO } else { acc };
                let mn = ch.pick_str(&["sw", "sw", "sh", "sb"]);
                (vec![ins(mn, vec![r(src), m(off, SP)])], vec!["store-at-or-above-entry-sp"])
            } else if ch.chance(1, 3) {
                let used = regs_used(lines, f.span);
                let free: Vec<u8> = TEMPS.iter().copied().filter(|t| !used.contains(t)).collect();
                if free.is_empty() {
                    return None;
                }
                let t = *ch.pick(&free);
                let mn = ch.pick_str(&["lb", "lbu", "lh", "lhu"]);
                (vec![ins(mn, vec![r(t), m(off, SP)]), ins("add", vec![r(acc), r(acc), r(t)])], vec![])
            } else {
                let used = regs_used(lines, f.span);
                let free: Vec<u8> = TEMPS.iter().copied().filter(|t| !used.contains(t)).collect();
                if free.is_empty() {
                    return None;
                }
                let t = *ch.pick(&free);
                (vec![ins("lw", vec![r(t), m(off, SP)]), ins("add", vec![r(acc), r(acc), r(t)])], vec![])
            };
            Some(Mutation {
                lines: insert(lines, at, new),
                expect: "invalid-stack-offset-usage",
                accept: vec![at],
                reg: None,
                monitor: mon,
            })
        }
        "instruction-in-data-segment" => {
            let f = pick_func(info, ch, |f| f.name != "main")?;
            // .data in front of the body (after the label), .text after the function
            let mut v = insert(lines, f.span.1, vec![Line::Dir(".text".into(), vec![])]);
            v = insert(&v, f.span.0 + 1, vec![Line::Dir(".data".into(), vec![])]);
            Some(Mutation {
                lines: v,
                expect: "invalid-segment",
                accept: vec![f.span.0 + 2],
                reg: None,
                monitor: vec![],
            })
        }
        "unknown-ecall-number" => {
            if info.data_labels.is_empty() || info.ecall_lines.is_empty() {
                return None;
            }
            let e = *ch.pick(&info.ecall_lines);
            // the instruction that sets a7 directly precedes the ecall (li / addi / mv)
            let Line::Ins(prev) = &lines[e - 1] else { return None };
            if !matches!(prev.ops.first(), Some(Opd::R(17))) {
                return None;
            }
            let f = info.funcs.iter().find(|f| f.span.0 <= e && e < f.span.1)?;
            let used = regs_used(lines, f.span);
            let free: Vec<u8> = TEMPS.iter().copied().filter(|t| !used.contains(t)).collect();
            if free.is_empty() {
                return None;
            }
            let t = *ch.pick(&free);
            let mut v = lines.to_vec();
            v[e - 1] = ins("lw", vec![r(A7), m(0, t)]);
            v = insert(&v, e - 1, vec![ins("la", vec![r(t), Opd::L(info.data_labels[0].clone())])]);
            Some(Mutation {
                lines: v,
                expect: "unknown-ecall",
                accept: vec![e + 1],
                reg: None,
                monitor: vec![],
            })
        }
        "unreachable-code" => {
            let f = pick_func(info, ch, |_| true)?;
            let at = f.last_line + 1;
            let t = 5u8;
            let new = vec![ins("li", vec![r(t), i(1)]), ins("addi", vec![r(t), r(t), i(1)])];
            Some(Mutation {
                lines: insert(lines, at, new),
                expect: "unreachable-code",
                accept: vec![at],
                reg: None,
                monitor: vec![],
            })
        }
        "jump-into-function" => {
            let f = pick_func(info, ch, |f| f.name != "main")?;
            // the jump stands in main or, as a "tail call", inside another function
            let host = if ch.chance(1, 2) { Some(main) } else { pick_func(info, ch, |g| g.name != "main" && g.name != f.name) }.unwrap_or(main);
            let at = host.body_start;
            let shift = usize::from(at <= f.span.0);
            Some(Mutation {
                lines: insert(lines, at, vec![ins("j", vec![Opd::L(f.name.clone())])]),
                expect: "invalid-jump-to-function",
                // the jump, or the function's label / first instruction
                accept: vec![at, f.span.0 + shift, f.span.0 + shift + 1],
                reg: None,
                monitor: vec![],
            })
        }
        "fallthrough-into-function" => {
            // remove the final ret of a function that is directly followed by another function
            let idx: Vec<usize> = (1..info.funcs.len().saturating_sub(1)).collect();
            if idx.is_empty() {
                return None;
            }
            let k = *ch.pick(&idx);
            let f = &info.funcs[k];
            let next = &info.funcs[k + 1];
            if next.span.0 != f.last_line + 1 {
                return None;
            }
            let mut v = lines.to_vec();
            v.remove(f.last_line);
            // the entry instruction of the next function, or any label that stands on it (the
            // removed ret may leave a label of the first function there as well)
            let mut accept = vec![next.span.0 - 1, next.span.0];
            let mut k2 = next.span.0 - 1;
            while k2 > 0 && matches!(v[k2 - 1], Line::Label(_)) {
                k2 -= 1;
                accept.push(k2);
            }
            Some(Mutation {
                lines: v,
                expect: "node-in-many-functions",
                accept,
                reg: None,
                monitor: vec![],
            })
        }
        "function-first-in-program" => {
            let f = pick_func(info, ch, |f| f.name != "main")?;
            // move the function in front of main (keeping directives that precede main)
            let body: Vec<Line> = lines[f.span.0..f.span.1].to_vec();
            let mut v = lines.to_vec();
            v.drain(f.span.0..f.span.1);
            let at = main.span.0;
            let v = insert(&v, at, body);
            Some(Mutation {
                lines: v,
                expect: "first-instruction-is-function",
                accept: vec![at, at + 1],
                reg: None,
                monitor: vec![],
            })
        }
        _ => None,
    }
}

impl Prop for C05 {
    type Case = Case;

    fn gen(ch: &mut Choices, tier: Tier) -> Option<Case> {
        let big = tier == Tier::Thorough;
        let class = ch.pick_str(&CLASSES);
        let mut o = CleanOpts::all(if big { 4 } else { 3 }, if big { 8 } else { 5 });
        o.recursion = false;
        let (base, info) = clean::program(ch, &o);
        let m = mutate(class, &base, &info, ch)?;
        let inputs = (0..3).map(|_| Inputs::from_choices(ch)).collect();
        let n_text_lines = render_plain(&m.lines).text.lines().count().max(2);
        Some(Case {
            base,
            mutated: m.lines,
            class: class.to_string(),
            expect_code: m.expect.to_string(),
            accept_lines: m.accept,
            accept_reg: m.reg,
            monitor_kinds: m.monitor.iter().map(|s| s.to_string()).collect(),
            inputs,
            cut: if ch.chance(1, 4) {
                let n = n_text_lines;
                let a = ch.below(n - 1);
                let b = a + 1 + ch.below(n - a - 1).min(40);
                Some((a, b))
            } else {
                None
            },
        })
    }

    fn check(case: &Case, ctx: &mut Ctx) -> Vec<Violation> {
        ctx.label(format!("class:{}", case.class));
        // the base must be analyzer-clean (C04 is a separate property)
        let base_text = render_plain(&case.base).text;
        match adapter::lint(&single(&base_text)) {
            Ok(l) if l.diags.is_empty() => {}
            Ok(_) => {
                ctx.skip("base_not_clean");
                return vec![];
            }
            Err(p) => {
                ctx.skip(&format!("c06_panic:{}", p.location()));
                return vec![];
            }
        }
        // the injected fault must really be one, where an execution can show it
        if !case.monitor_kinds.is_empty() {
            let mut confirmed = false;
            for inp in &case.inputs {
                let rep = monitor::run(&case.mutated, inp, 3000);
                if let Some(c) = &rep.complaint {
                    if case.monitor_kinds.contains(&c.kind) {
                        confirmed = true;
                        break;
                    }
                }
            }
            if !confirmed {
                ctx.skip("fault_not_observed_by_monitor");
                return vec![];
            }
            ctx.fact("faults_confirmed_by_monitor", 1);
        }
        ctx.nontrivial = true;
        let rd = render_plain(&case.mutated);
        let lint = match adapter::lint(&single(&rd.text)) {
            Ok(l) => l,
            Err(p) => {
                ctx.skip(&format!("c06_panic:{}", p.location()));
                return vec![];
            }
        };
        ctx.fact("mutants_linted", 1);
        let ti = TextIndex::new(&rd.text);
        let src_lines: BTreeSet<usize> = case.accept_lines.iter().filter_map(|l| rd.map.get(*l).map(|m| m.line)).collect();
        let judge = |diags: &[adapter::Diag], how: &str| -> Option<Violation> {
            let of_kind: Vec<&adapter::Diag> = diags.iter().filter(|d| d.code == case.expect_code).collect();
            let located: Vec<&&adapter::Diag> = of_kind
                .iter()
                .filter(|d| src_lines.contains(&ti.line_col(d.range.start.raw.min(ti.len())).0))
                .collect();
            let reg_ok = |d: &adapter::Diag| match case.accept_reg {
                None => true,
                Some(r) => {
                    let s = ti.slice(d.range.start.raw, d.range.end.raw + 1);
                    // either the operand itself or, for ra written by a call, the call's implicit
                    // operand (its mnemonic) or the whole instruction
                    reg_from_name(&s) == Some(r) || r == RA
                }
            };
            if located.iter().any(|d| reg_ok(d)) {
                return None;
            }
            let outcome = if of_kind.is_empty() {
                "missing"
            } else if located.is_empty() {
                "misplaced"
            } else {
                "wrong-operand"
            };
            Some(
                Violation::new(format!(
                    "injected violation '{}' must give a {} diagnostic on line(s) {:?}{}{how}; diagnostics: {:?}\n{}",
                    case.class,
                    case.expect_code,
                    src_lines.iter().map(|l| l + 1).collect::<Vec<_>>(),
                    case.accept_reg.map(|r| format!(" about {}", ABI[r as usize])).unwrap_or_default(),
                    diags.iter().map(|d| format!("{}@{}:{}", d.code, d.range.start.line + 1, d.range.start.col + 1)).collect::<Vec<_>>(),
                    rd.text
                ))
                .with("class", case.class.clone())
                .with("outcome", outcome),
            )
        };
        if let Some(v) = judge(&lint.diags, "") {
            return vec![v];
        }
        // the same program cut into two files: lines a..b of the text live in an included file
        if let Some((a, b)) = case.cut {
            let lines: Vec<&str> = rd.text.lines().collect();
            if a < b && b <= lines.len() {
                let mut main: Vec<String> = lines[..a].iter().map(|s| s.to_string()).collect();
                main.push(".include \"part.s\"".into());
                main.extend(lines[b..].iter().map(|s| s.to_string()));
                let part: Vec<String> = lines[a..b].iter().map(|s| s.to_string()).collect();
                let files: adapter::Files = vec![("main.s".into(), main.join("\n") + "\n"), ("part.s".into(), part.join("\n") + "\n")];
                if let Ok(l2) = adapter::lint(&files) {
                    ctx.fact("mutants_linted_as_two_files", 1);
                    // put every diagnostic back on the line of the single text it belongs to
                    let mut back: Vec<adapter::Diag> = vec![];
                    for d in &l2.diags {
                        let gl = if d.file == "part.s" {
                            a + d.range.start.line
                        } else if d.range.start.line < a {
                            d.range.start.line
                        } else if d.range.start.line == a {
                            continue;
                        } else {
                            d.range.start.line - 1 + (b - a)
                        };
                        let Some(ls) = ti.line_starts.get(gl) else { continue };
                        let mut d2 = d.clone();
                        let len = d.range.end.raw.saturating_sub(d.range.start.raw);
                        d2.range.start.raw = ls + d.range.start.col;
                        d2.range.end.raw = d2.range.start.raw + len;
                        d2.range.start.line = gl;
                        back.push(d2);
                    }
                    if let Some(v) = judge(&back, " (program cut into two files)") {
                        return vec![v.with("layout", "two-files")];
                    }
                }
            }
        }
        vec![]
    }

    fn show(case: &Case) -> Value {
        json!({"class": case.class, "expected": case.expect_code, "on_lines": case.accept_lines.iter().map(|l| l + 1).collect::<Vec<_>>(), "mutated_program": render_plain(&case.mutated).text})
    }
}
