//! C13 — diagnostics do not depend on how the same program is written.
//! C14 helpers live here too (`locate`).

use std::collections::BTreeMap;

use serde::{Deserialize, Serialize};
use serde_json::{json, Value};

use crate::adapter::{self, single, Diag};
use crate::choice::Choices;
use crate::gen::clean::{self, CleanOpts};
use crate::gen::wild::{self, WildOpts};
use crate::gen::syn;
use crate::model::*;
use crate::props::c05;
use crate::runner::{Ctx, Prop, Tier, Violation};

#[derive(Clone, Debug, Serialize, Deserialize)]
pub struct Case {
    pub lines: Vec<Line>,
    /// per line: expand the pseudo-instruction to its official form in the second rendering
    pub expand: Vec<bool>,
    /// per line: which of the equivalent spellings of the expansion to use
    #[serde(default)]
    pub variant: Vec<bool>,
    pub style: Vec<u32>,
    pub source: String,
}

pub struct C13;

/// Where a diagnostic sits: (code, model line, operand index or None for the whole statement / mnemonic).
pub type Located = (String, usize, Option<usize>);

pub fn locate(diags: &[Diag], rd: &Rendered, lines: &[Line]) -> Result<Vec<Located>, String> {
    let mut out = vec![];
    for d in diags {
        if d.file.is_empty() {
            // errors attached to no file (left to C16): compared by code only
            out.push((d.code.clone(), usize::MAX, None));
            continue;
        }
        let (s, e) = (d.range.start.raw, d.range.end.raw + 1);
        let mut found = None;
        for (li, (ls, l)) in rd.map.iter().zip(lines.iter()).enumerate() {
            if matches!(l, Line::Blank | Line::Comment(_)) {
                continue;
            }
            if s >= ls.stmt.0 && s < ls.stmt.1.max(ls.stmt.0 + 1) {
                let mut op = None;
                for (k, o) in ls.ops.iter().enumerate() {
                    if (o.whole.0 == s && o.whole.1 == e)
                        || o.reg.map(|r| r == (s, e)).unwrap_or(false)
                        || o.imm.map(|r| r == (s, e)).unwrap_or(false)
                        || (s >= o.whole.0 && e <= o.whole.1)
                    {
                        op = Some(k);
                        break;
                    }
                }
                found = Some((d.code.clone(), li, op));
                break;
            }
        }
        // a diagnostic that points behind the statement (at its trailing comment, at the end of the
        // line) still belongs to the statement of that source line
        if found.is_none() {
            for (li, (ls, l)) in rd.map.iter().zip(lines.iter()).enumerate() {
                if !matches!(l, Line::Blank | Line::Comment(_)) && ls.line == d.range.start.line && s >= ls.stmt.1 {
                    found = Some((d.code.clone(), li, None));
                }
            }
        }
        match found {
            Some(f) => out.push(f),
            None => return Err(format!("diagnostic {} at raw {} is on no statement", d.code, s)),
        }
    }
    out.sort();
    Ok(out)
}

/// Official expansion of a pseudo-instruction and the operand index map pseudo -> official.
pub fn official(i: &Ins, alt: bool) -> Option<(Ins, Vec<Option<usize>>)> {
    let o = &i.ops;
    let rr = |k: usize| o.get(k).cloned();
    let z = Opd::R(ZERO);
    Some(match (i.mn.as_str(), o.len()) {
        ("nop", 0) => (Ins::new("addi", vec![z.clone(), z, Opd::I(0)]), vec![]),
        ("li", 2) => match o[1] {
            Opd::I(v) if (-2048..2048).contains(&v) => (Ins::new("addi", vec![rr(0)?, z, Opd::I(v)]), vec![Some(0), Some(2)]),
            _ => return None,
        },
        ("mv", 2) => (Ins::new("addi", vec![rr(0)?, rr(1)?, Opd::I(0)]), vec![Some(0), Some(1)]),
        ("not", 2) => (Ins::new("xori", vec![rr(0)?, rr(1)?, Opd::I(-1)]), vec![Some(0), Some(1)]),
        ("neg", 2) => (Ins::new("sub", vec![rr(0)?, z, rr(1)?]), vec![Some(0), Some(2)]),
        ("seqz", 2) => (Ins::new("sltiu", vec![rr(0)?, rr(1)?, Opd::I(1)]), vec![Some(0), Some(1)]),
        ("snez", 2) => (Ins::new("sltu", vec![rr(0)?, z, rr(1)?]), vec![Some(0), Some(2)]),
        ("sltz", 2) => (Ins::new("slt", vec![rr(0)?, rr(1)?, z]), vec![Some(0), Some(1)]),
        ("sgtz", 2) => (Ins::new("slt", vec![rr(0)?, z, rr(1)?]), vec![Some(0), Some(2)]),
        ("beqz", 2) => (Ins::new("beq", vec![rr(0)?, z, rr(1)?]), vec![Some(0), Some(2)]),
        ("bnez", 2) => (Ins::new("bne", vec![rr(0)?, z, rr(1)?]), vec![Some(0), Some(2)]),
        ("bgez", 2) => (Ins::new("bge", vec![rr(0)?, z, rr(1)?]), vec![Some(0), Some(2)]),
        ("bltz", 2) => (Ins::new("blt", vec![rr(0)?, z, rr(1)?]), vec![Some(0), Some(2)]),
        ("blez", 2) => (Ins::new("bge", vec![z, rr(0)?, rr(1)?]), vec![Some(1), Some(2)]),
        ("bgtz", 2) => (Ins::new("blt", vec![z, rr(0)?, rr(1)?]), vec![Some(1), Some(2)]),
        ("bgt", 3) => (Ins::new("blt", vec![rr(1)?, rr(0)?, rr(2)?]), vec![Some(1), Some(0), Some(2)]),
        ("ble", 3) => (Ins::new("bge", vec![rr(1)?, rr(0)?, rr(2)?]), vec![Some(1), Some(0), Some(2)]),
        ("bgtu", 3) => (Ins::new("bltu", vec![rr(1)?, rr(0)?, rr(2)?]), vec![Some(1), Some(0), Some(2)]),
        ("bleu", 3) => (Ins::new("bgeu", vec![rr(1)?, rr(0)?, rr(2)?]), vec![Some(1), Some(0), Some(2)]),
        ("j", 1) => (Ins::new("jal", vec![z, rr(0)?]), vec![Some(1)]),
        ("jal", 1) | ("call", 1) => (Ins::new("jal", vec![Opd::R(RA), rr(0)?]), vec![Some(1)]),
        // jalr has two equivalent spellings: `jalr rd, rs, imm` and `jalr rd, imm(rs)` (offset may be omitted)
        ("jr", 1) => match (alt, rr(0)?) {
            (true, Opd::R(s)) => (Ins::new("jalr", vec![z, Opd::M(0, s)]), vec![Some(1)]),
            _ => (Ins::new("jalr", vec![z, rr(0)?, Opd::I(0)]), vec![Some(1)]),
        },
        // `jalr rs` is short for `jalr ra, rs, 0`
        ("jalr", 1) => match (alt, rr(0)?) {
            (true, Opd::R(s)) => (Ins::new("jalr", vec![Opd::R(RA), Opd::M(0, s)]), vec![Some(1)]),
            _ => (Ins::new("jalr", vec![Opd::R(RA), rr(0)?, Opd::I(0)]), vec![Some(1)]),
        },
        ("ret", 0) => {
            if alt {
                (Ins::new("jalr", vec![z, Opd::M(0, RA)]), vec![])
            } else {
                (Ins::new("jalr", vec![z, Opd::R(RA), Opd::I(0)]), vec![])
            }
        }
        _ => return None,
    })
}

impl Prop for C13 {
    type Case = Case;

    fn gen(ch: &mut Choices, tier: Tier) -> Option<Case> {
        let big = tier == Tier::Thorough;
        let (lines, source) = match ch.weighted(&[3, 4, 2, 2]) {
            0 => {
                let o = CleanOpts::all(3, if big { 8 } else { 5 });
                (clean::program(ch, &o).0, "clean")
            }
            1 => {
                // a clean program with one injected violation
                let mut found = None;
                for _ in 0..3 {
                    if let Some(c) = <c05::C05 as Prop>::gen(ch, tier) {
                        found = Some(c.mutated);
                        break;
                    }
                }
                (found?, "violating")
            }
            2 => {
                let o = WildOpts {
                    max_funcs: 2,
                    max_blocks: 3,
                    max_body: 3,
                    chaos: false,
                    c03_domain: false,
                    faults: ch.chance(1, 4),
                    data: true,
                };
                (wild::program(ch, &o).0, "wild")
            }
            _ => {
                let o = syn::SynOpts {
                    max_funcs: 2,
                    max_body: 6,
                    data: true,
                    odd_forms: false,
                };
                (syn::program(ch, &o).0, "syntactic")
            }
        };
        // one program in six makes one of its calls through a register (`la t, f` + `jalr t`)
        let mut lines = lines;
        if ch.chance(1, 6) {
            let calls: Vec<usize> = lines
                .iter()
                .enumerate()
                .filter(|(_, l)| matches!(l, Line::Ins(i) if (i.mn == "call" || i.mn == "jal") && i.ops.len() == 1))
                .map(|(k, _)| k)
                .collect();
            if !calls.is_empty() {
                let k = *ch.pick(&calls);
                if let Line::Ins(i) = lines[k].clone() {
                    let t = *ch.pick(&[5u8, 6, 28, 31]);
                    lines[k] = Line::Ins(Ins::new("jalr", vec![Opd::R(t)]));
                    lines.insert(k, Line::Ins(Ins::new("la", vec![Opd::R(t), i.ops[0].clone()])));
                }
            }
        }
        let expand = lines.iter().map(|_| ch.chance(1, 2)).collect();
        let variant = lines.iter().map(|_| ch.chance(1, 2)).collect();
        let style = (0..(lines.len() * 6).min(700)).map(|_| ch.raw()).collect();
        Some(Case {
            lines,
            expand,
            variant,
            style,
            source: source.to_string(),
        })
    }

    fn check(case: &Case, ctx: &mut Ctx) -> Vec<Violation> {
        ctx.label(format!("source:{}", case.source));
        // rendering A: canonical
        let rd_a = render_plain(&case.lines);
        // rendering B: official expansions at the chosen sites, every surface freedom
        let mut lines_b = case.lines.clone();
        let mut maps: BTreeMap<usize, Vec<Option<usize>>> = BTreeMap::new();
        let mut expanded = 0;
        for (k, l) in case.lines.iter().enumerate() {
            if let Line::Ins(i) = l {
                if case.expand.get(k).copied().unwrap_or(false) {
                    if let Some((ex, m)) = official(i, case.variant.get(k).copied().unwrap_or(false)) {
                        ctx.label(format!("expanded:{}", i.mn));
                        lines_b[k] = Line::Ins(ex);
                        maps.insert(k, m);
                        expanded += 1;
                    }
                }
            }
        }
        let mut opts = StyleOpts::all();
        opts.no_final_newline = false;
        let rd_b = render(&lines_b, &mut Choices::new(&case.style), &opts);
        let (la, lb) = match (adapter::lint(&single(&rd_a.text)), adapter::lint(&single(&rd_b.text))) {
            (Ok(a), Ok(b)) => (a, b),
            _ => {
                ctx.skip("c06_panic");
                return vec![];
            }
        };
        ctx.fact("program_pairs_compared", 1);
        let (a, b) = match (locate(&la.diags, &rd_a, &case.lines), locate(&lb.diags, &rd_b, &lines_b)) {
            (Ok(a), Ok(b)) => (a, b),
            (x, y) => {
                ctx.skip(&format!("unlocatable_diagnostic:{:?}{:?}", x.err(), y.err()).chars().take(80).collect::<String>());
                return vec![];
            }
        };
        // map A's operand indices through the expansion rules
        let mut a_mapped: Vec<_> = a
            .iter()
            .map(|(code, li, op)| {
                let op2 = match (maps.get(li), op) {
                    (Some(m), Some(k)) => m.get(*k).copied().flatten(),
                    (_, op) => *op,
                };
                (code.clone(), *li, op2)
            })
            .collect();
        a_mapped.sort();
        // a diagnostic on an operand that exists only in the expansion counts for the instruction
        let mut b_norm: Vec<_> = b
            .iter()
            .map(|(code, li, op)| {
                let op2 = match (maps.get(li), op) {
                    (Some(m), Some(k)) if !m.contains(&Some(*k)) => None,
                    (_, op) => *op,
                };
                (code.clone(), *li, op2)
            })
            .collect();
        b_norm.sort();
        ctx.nontrivial = !a.is_empty() || rd_b.style_sites + expanded >= 3;
        if !a.is_empty() {
            ctx.label("base-has-diagnostics");
        }
        if a_mapped == b_norm {
            return vec![];
        }
        let only_a: Vec<_> = a_mapped.iter().filter(|x| !b_norm.contains(x)).collect();
        let only_b: Vec<_> = b_norm.iter().filter(|x| !a_mapped.contains(x)).collect();
        let first = only_a.first().or(only_b.first()).unwrap();
        let rule = match case.lines.get(first.1) {
            Some(Line::Ins(i)) if maps.contains_key(&first.1) => format!("expand:{}", i.mn),
            _ => "style".to_string(),
        };
        vec![Violation::new(format!(
            "the same program written differently gets different diagnostics\n only for the canonical text: {:?}\n only for the rewritten text: {:?}\n--- canonical\n{}\n--- rewritten\n{}",
            only_a, only_b, rd_a.text, rd_b.text
        ))
        .with("rewrite", rule)
        .with("code", first.0.clone())]
    }

    fn show(case: &Case) -> Value {
        json!({"canonical": render_plain(&case.lines).text, "source": case.source})
    }
}
