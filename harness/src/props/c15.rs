//! C15 — .include behaves as textual inclusion with per-file locations.

use std::collections::BTreeMap;
use std::time::Duration;

use serde::{Deserialize, Serialize};
use serde_json::{json, Value};

use crate::adapter::{self, Fault};
use crate::choice::Choices;
use crate::cli;
use crate::gen;
use crate::model::*;
use crate::props::c13::{self, locate, Located};
use crate::runner::{Ctx, Prop, Tier, Violation};

#[derive(Clone, Debug, Serialize, Deserialize)]
pub struct Case {
    pub lines: Vec<Line>,
    /// the split: (file name, lines) with `.include` directives, base first
    pub files: Vec<(String, Vec<Line>)>,
    /// a fault injected on one include directive: (file name whose import fails, fault)
    pub fault: Option<(String, Fault)>,
    /// "self" / "cycle": an extra include directive that re-includes an ancestor
    pub reinclude: Option<(String, String)>,
    pub via_cli: bool,
    pub source: String,
    /// how the k-th include directive spells its path: 0 plain, 1 "./x", 2 "sub/../x", 3 "./sub/.././x"
    #[serde(default)]
    pub spelling: Vec<u8>,
}

pub struct C15;

fn spell(name: &str, how: u8) -> String {
    match how {
        1 => format!("./{name}"),
        2 => format!("sub/../{name}"),
        3 => format!("./sub/.././{name}"),
        _ => name.to_string(),
    }
}

/// Expansion order: for every non-include line of the include tree, the original line index.
fn paste_order(files: &[(String, Vec<Line>)], skip: &dyn Fn(&str) -> bool) -> Vec<(usize, usize)> {
    fn walk(fi: usize, files: &[(String, Vec<Line>)], skip: &dyn Fn(&str) -> bool, out: &mut Vec<(usize, usize)>, depth: usize) {
        if depth > 16 {
            return;
        }
        for (li, l) in files[fi].1.iter().enumerate() {
            match l {
                Line::Dir(d, ops) if d == ".include" => {
                    if let Some(Opd::S(path)) = ops.first() {
                        let name = crate::paths::resolve(&files[fi].0, path);
                        if skip(&name) {
                            continue;
                        }
                        if let Some(k) = files.iter().position(|(n, _)| *n == name) {
                            walk(k, files, skip, out, depth + 1);
                        }
                    }
                }
                _ => out.push((fi, li)),
            }
        }
    }
    let mut out = vec![];
    walk(0, files, skip, &mut out, 0);
    out
}

fn subtree(files: &[(String, Vec<Line>)], root: &str) -> Vec<String> {
    let mut v = vec![root.to_string()];
    let mut k = 0;
    while k < v.len() {
        if let Some((host, ls)) = files.iter().find(|(n, _)| *n == v[k]) {
            for l in ls {
                if let Line::Dir(d, ops) = l {
                    if d == ".include" {
                        if let Some(Opd::S(p)) = ops.first() {
                            let n = crate::paths::resolve(host, p);
                            if !v.contains(&n) {
                                v.push(n);
                            }
                        }
                    }
                }
            }
        }
        k += 1;
    }
    v
}

impl C15 {
    fn check_case(case: &Case, ctx: &mut Ctx) -> Vec<Violation> {
        ctx.label(format!("source:{}", case.source));
        ctx.label(format!("files:{}", case.files.len()));
        let mut files = case.files.clone();
        // self / cyclic re-inclusion: an extra directive at the end of `host` naming an ancestor
        let mut reinclude_site: Option<(usize, usize)> = None;
        if let Some((host, target)) = &case.reinclude {
            if let Some(h) = files.iter().position(|(n, _)| n == host) {
                files[h].1.push(Line::Dir(".include".into(), vec![Opd::S(crate::paths::relpath(host, target))]));
                reinclude_site = Some((h, files[h].1.len() - 1));
                ctx.label(if host == target { "fault:self-include" } else { "fault:cyclic-include" });
            }
        }
        if let Some((_, f)) = &case.fault {
            ctx.label(format!("fault:{f:?}"));
        }
        // the same include tree with every path spelled as the case says (same lines, other operand text)
        let mut k_inc = 0;
        let mut nonplain = false;
        let files_spelled: Vec<(String, Vec<Line>)> = files
            .iter()
            .map(|(n, ls)| {
                let ls = ls
                    .iter()
                    .map(|l| match l {
                        Line::Dir(d, ops) if d == ".include" && !case.spelling.is_empty() => {
                            let how = case.spelling[k_inc % case.spelling.len()];
                            k_inc += 1;
                            nonplain |= how != 0;
                            match ops.first() {
                                Some(Opd::S(name)) => Line::Dir(d.clone(), vec![Opd::S(spell(name, how))]),
                                _ => l.clone(),
                            }
                        }
                        _ => l.clone(),
                    })
                    .collect();
                (n.clone(), ls)
            })
            .collect();
        if nonplain {
            ctx.label("include-path-spelled-with-dots");
        }
        let rendered: Vec<(String, Rendered)> = files_spelled.iter().map(|(n, l)| (n.clone(), render_plain(l))).collect();
        let texts: adapter::Files = rendered.iter().map(|(n, r)| (n.clone(), r.text.clone())).collect();
        let all_text = texts.iter().map(|(n, t)| format!("--- {n}\n{t}")).collect::<String>();
        let faults: Vec<(String, Fault)> = case.fault.iter().cloned().collect();
        // what the pasted single file looks like: drop the subtree of a failing include
        let dropped: Vec<String> = match &case.fault {
            Some((name, _)) => subtree(&files, name),
            None => vec![],
        };
        let reinc = case.reinclude.clone();
        let skip = |n: &str| dropped.iter().any(|d| d == n) || reinc.as_ref().map(|(_, t)| false && t == n).unwrap_or(false);
        // the re-include directive itself never pastes anything (it must be rejected)
        let mut order = paste_order(&case.files, &skip);
        let _ = &mut order;
        let single_lines: Vec<Line> = order.iter().map(|(fi, li)| case.files[*fi].1[*li].clone()).collect();
        let rd_single = render_plain(&single_lines);
        let split = match adapter::lint_with(&texts, &faults) {
            Ok(l) => l,
            Err(p) => {
                ctx.skip(&format!("c06_panic:{}", p.location()));
                return vec![];
            }
        };
        let single = match adapter::lint(&adapter::single(&rd_single.text)) {
            Ok(l) => l,
            Err(p) => {
                ctx.skip(&format!("c06_panic:{}", p.location()));
                return vec![];
            }
        };
        if split.budget_exceeded {
            return vec![Violation::new(format!("the include graph was imported without end (import budget exceeded)\n{all_text}"))
                .with("via", "mem")
                .with("clause", "unbounded-import")];
        }
        ctx.fact("split_programs_compared", 1);
        let mut out = vec![];
        // expected include errors
        let mut expected_err_sites: Vec<(usize, usize, &'static str)> = vec![];
        if let Some((name, f)) = &case.fault {
            for (fi, (_, ls)) in files.iter().enumerate() {
                for (li, l) in ls.iter().enumerate() {
                    if matches!(l, Line::Dir(d, ops) if d == ".include" && matches!(ops.first(), Some(Opd::S(p)) if crate::paths::resolve(&files[fi].0, p) == *name)) {
                        expected_err_sites.push((
                            fi,
                            li,
                            match f {
                                Fault::NotFound => "parse:file-not-found",
                                Fault::Io => "parse:io-error",
                                Fault::AlreadyRead => "parse:cyclic-dependency",
                            },
                        ));
                    }
                }
            }
        }
        if let Some((h, li)) = reinclude_site {
            expected_err_sites.push((h, li, "parse:cyclic-dependency"));
        }
        let include_codes = ["parse:file-not-found", "parse:io-error", "parse:cyclic-dependency", "parse:unexpected-error"];
        let mut include_errs: Vec<&adapter::Diag> = split.diags.iter().filter(|d| include_codes.contains(&d.code.as_str())).collect();
        for (fi, li, code) in &expected_err_sites {
            let ls = &rendered[*fi].1.map[*li];
            let path_span = ls.ops.first().map(|o| o.whole);
            let pos = include_errs.iter().position(|d| {
                d.file == files[*fi].0 && Some((d.range.start.raw, d.range.end.raw + 1)) == path_span
            });
            match pos {
                Some(k) => {
                    let d = include_errs.remove(k);
                    if d.code != *code {
                        // the kind of error is part of "explains why"; a generic one is not acceptable
                        if d.code == "parse:unexpected-error" {
                            out.push(
                                Violation::new(format!("the failing include in {} line {} is reported as a generic 'Unexpected error'\n{all_text}", files[*fi].0, li + 1))
                                    .with("via", "mem")
                                    .with("clause", "include-error-kind"),
                            );
                        }
                    }
                    ctx.fact("include_errors_located", 1);
                }
                None => out.push(
                    Violation::new(format!(
                        "no error located on the path of the failing .include in {} line {} (expected {code}); include errors: {:?}\n{all_text}",
                        files[*fi].0,
                        li + 1,
                        split.diags.iter().filter(|d| d.code.starts_with("parse:")).map(|d| (&d.code, &d.file, d.range.start.line + 1)).collect::<Vec<_>>()
                    ))
                    .with("via", "mem")
                    .with("clause", "include-error-missing"),
                ),
            }
        }
        if !include_errs.is_empty() {
            out.push(
                Violation::new(format!("unexpected include error(s): {:?}\n{all_text}", include_errs.iter().map(|d| (&d.code, &d.file, d.range.start.line + 1)).collect::<Vec<_>>()))
                    .with("via", "mem")
                    .with("clause", "include-error-spurious"),
            );
        }
        // all other diagnostics: located in the file that holds the text, equal to the pasted file's
        let mut got: Vec<Located> = vec![];
        let index: BTreeMap<(usize, usize), usize> = order.iter().enumerate().map(|(k, x)| (*x, k)).collect();
        for d in split.diags.iter().filter(|d| !include_codes.contains(&d.code.as_str())) {
            if d.file.is_empty() {
                got.push((d.code.clone(), usize::MAX, None));
                continue;
            }
            let Some(fi) = files.iter().position(|(n, _)| *n == d.file) else {
                out.push(Violation::new(format!("diagnostic {} attributed to unknown file {:?}\n{all_text}", d.code, d.file)).with("via", "mem").with("clause", "attribution"));
                continue;
            };
            match locate(std::slice::from_ref(d), &rendered[fi].1, &files[fi].1) {
                Ok(l) => {
                    let (code, li, op) = l[0].clone();
                    match index.get(&(fi, li)) {
                        Some(k) => got.push((code, *k, op)),
                        None => out.push(
                            Violation::new(format!("diagnostic {code} is located on line {} of {}, which is not part of the pasted program\n{all_text}", li + 1, d.file))
                                .with("via", "mem")
                                .with("clause", "attribution"),
                        ),
                    }
                }
                Err(e) => out.push(Violation::new(format!("{e} (file {})\n{all_text}", d.file)).with("via", "mem").with("clause", "attribution")),
            }
        }
        got.sort();
        let want = match locate(&single.diags, &rd_single, &single_lines) {
            Ok(w) => w,
            Err(_) => {
                ctx.skip("unlocatable_diagnostic_in_single_file");
                return out;
            }
        };
        let in_other_files = split.diags.iter().filter(|d| d.file != files[0].0).count();
        if in_other_files > 0 {
            ctx.label("diagnostic-in-included-file");
        }
        ctx.nontrivial = in_other_files > 0 || case.fault.is_some() || case.reinclude.is_some();
        if got != want && out.is_empty() {
            let only_split: Vec<_> = got.iter().filter(|x| !want.contains(x)).collect();
            let only_single: Vec<_> = want.iter().filter(|x| !got.contains(x)).collect();
            out.push(
                Violation::new(format!(
                    "the split program and the pasted single file get different diagnostics\n only split: {:?}\n only single: {:?}\n{all_text}--- pasted\n{}",
                    only_split, only_single, rd_single.text
                ))
                .with("via", "mem")
                .with("clause", "equivalence")
                .with("code", only_split.first().or(only_single.first()).map(|x| x.0.clone()).unwrap_or_default()),
            );
        }
        // the same through the command line tool on a scratch directory
        if case.via_cli && out.is_empty() && case.fault.as_ref().map(|f| f.1 == Fault::NotFound).unwrap_or(true) {
            out.extend(Self::cli_part(&texts, &split, &case.fault, ctx, &all_text));
        }
        out.truncate(3);
        out
    }

    fn cli_part(texts: &adapter::Files, split: &adapter::LintOut, fault: &Option<(String, Fault)>, ctx: &mut Ctx, all_text: &str) -> Vec<Violation> {
        let mut out = vec![];
        let dir = cli::scratch("c15", crate::runner::next_serial());
        let _ = std::fs::create_dir_all(dir.join("sub"));
        for (n, t) in texts {
            // every directory that holds a file also has a sub-directory `sub` (for paths spelled `sub/../x`)
            let d = dir.join(crate::paths::dir_of(n));
            let _ = std::fs::create_dir_all(d.join("sub"));
            if fault.as_ref().map(|f| f.0 == *n).unwrap_or(false) {
                continue; // missing file
            }
            let _ = std::fs::write(dir.join(n), t);
        }
        let base = texts[0].0.clone();
        let paths: Vec<String> = texts.iter().map(|(n, _)| dir.join(n).to_string_lossy().into_owned()).collect();
        let canon: Vec<String> = paths
            .iter()
            .map(|p| std::fs::canonicalize(p).map(|c| c.to_string_lossy().into_owned()).unwrap_or_else(|_| p.clone()))
            .collect();
        // a path may be printed as it was spelled in the directive: every spelling names the same file
        let spelled: Vec<(String, String)> = texts
            .iter()
            .flat_map(|(n, _)| (1..4u8).map(|how| (dir.join(spell(n, how)).to_string_lossy().into_owned(), n.clone())).collect::<Vec<_>>())
            .collect();
        let name_of = |p: &str| -> String {
            paths
                .iter()
                .chain(canon.iter())
                .position(|q| q == p)
                .map(|k| texts[k % texts.len()].0.clone())
                .or_else(|| spelled.iter().find(|(q, _)| q == p).map(|(_, n)| n.clone()))
                .unwrap_or_else(|| p.to_string())
        };
        let mk = |clause: &str, msg: String| Violation::new(format!("{msg}\n{all_text}")).with("via", "cli").with("clause", clause);
        let all = cli::run_rva(false, &["lint", &base, "--compact", "--no-color", "--all-files"], &dir, Duration::from_secs(120));
        let def = cli::run_rva(false, &["lint", &base, "--compact", "--no-color"], &dir, Duration::from_secs(120));
        ctx.fact("cli_invocations", 2);
        for (r, what) in [(&all, "--all-files"), (&def, "default")] {
            if r.cpu_limit_hit() {
                let _ = std::fs::remove_dir_all(&dir);
                return vec![mk("cli-hang", format!("rva lint {what} used more than 10 s of CPU time on a {}-byte program (killed by the CPU limit)", texts[0].1.len()))];
            }
            if r.timed_out {
                // wall-clock watchdog only: inconclusive, never a violation
                ctx.skip("cli_wall_clock_watchdog_inconclusive");
                let _ = std::fs::remove_dir_all(&dir);
                return vec![];
            }
            if !r.clean_exit() || !r.stderr.is_empty() {
                let _ = std::fs::remove_dir_all(&dir);
                return vec![mk("cli-crash", format!("rva lint {what} exited with {:?}/{:?}, stderr: {}", r.status, r.signal, r.stderr.chars().take(300).collect::<String>()))];
            }
        }
        let all_names: Vec<String> = paths.iter().chain(canon.iter()).cloned().chain(spelled.iter().map(|(q, _)| q.clone())).collect();
        match (cli::parse_compact(&all.stdout, &all_names), cli::parse_compact(&def.stdout, &all_names)) {
            (Ok((va, _)), Ok((vd, others))) => {
                // library result, as (file, line, col, title)
                let mut want: Vec<(String, usize, usize, usize)> = split
                    .diags
                    .iter()
                    .map(|d| (d.file.clone(), d.range.start.line + 1, d.range.start.col + 1, d.range.end.col + 1))
                    .collect();
                want.sort();
                let mut got: Vec<(String, usize, usize, usize)> = va.iter().map(|s| (name_of(&s.file), s.line, s.col_start, s.col_end)).collect();
                got.sort();
                ctx.fact("cli_outputs_compared_with_library", 1);
                if got != want {
                    out.push(mk("cli-vs-library", format!("--all-files shows {:?}, the in-memory reader gives {:?}", got, want)));
                }
                let base_only: Vec<_> = va.iter().filter(|s| name_of(&s.file) == base).cloned().collect();
                if vd != base_only {
                    out.push(mk("default-selection", format!("default output shows {:?}, the base-file items of --all-files are {:?}", vd, base_only)));
                }
                let hidden = va.len() - base_only.len();
                if others != hidden {
                    out.push(mk("other-files-count", format!("default output counts {others} diagnostics in other files, --all-files shows {hidden}")));
                }
            }
            (Err(e), _) | (_, Err(e)) => out.push(mk("cli-output-unparsable", e)),
        }
        let _ = std::fs::remove_dir_all(&dir);
        out
    }
}

impl Prop for C15 {
    type Case = Case;

    fn gen(ch: &mut Choices, tier: Tier) -> Option<Case> {
        let base = <c13::C13 as Prop>::gen(ch, tier)?;
        let lines = base.lines;
        let mut files = gen::split_include(&lines, ch, if tier == Tier::Thorough { 6 } else { 5 });
        if files.len() < 2 {
            return None;
        }
        // one tree in three lives in several directories; two thirds of those get two files with the same
        // base name in different directories (the same path text then names different files)
        if ch.chance(1, 3) {
            gen::place_in_dirs(&mut files, ch, false);
            if ch.chance(2, 3) {
                gen::clash_basenames(&mut files, ch);
            }
        }
        let mut fault = None;
        let mut reinclude = None;
        match ch.weighted(&[5, 2, 1, 1, 1, 1]) {
            1 => fault = Some((files[1 + ch.below(files.len() - 1)].0.clone(), Fault::NotFound)),
            2 => fault = Some((files[1 + ch.below(files.len() - 1)].0.clone(), Fault::Io)),
            3 => fault = Some((files[1 + ch.below(files.len() - 1)].0.clone(), Fault::AlreadyRead)),
            4 => {
                let f = files[ch.below(files.len())].0.clone();
                reinclude = Some((f.clone(), f));
            }
            5 => {
                // a file that includes the base file (an ancestor of everything)
                let f = files[1 + ch.below(files.len() - 1)].0.clone();
                reinclude = Some((f, files[0].0.clone()));
            }
            _ => {}
        }
        Some(Case {
            lines,
            files,
            fault,
            reinclude,
            via_cli: ch.chance(1, 8),
            source: base.source,
            spelling: if ch.chance(1, 3) { (0..4).map(|_| ch.below(4) as u8).collect() } else { vec![] },
        })
    }

    fn check(case: &Case, ctx: &mut Ctx) -> Vec<Violation> {
        C15::check_case(case, ctx)
    }

    fn show(case: &Case) -> Value {
        json!({"files": case.files.iter().map(|(n, l)| (n.clone(), render_plain(l).text)).collect::<Vec<_>>(), "fault": case.fault, "reinclude": case.reinclude, "via_cli": case.via_cli, "spelling": case.spelling, "names": case.files.iter().map(|f| f.0.clone()).collect::<Vec<_>>()})
    }
}
