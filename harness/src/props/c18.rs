//! C18 — all output channels report the same diagnostics, well-formed and ordered.

use std::collections::BTreeMap;
use std::time::Duration;

use serde::{Deserialize, Serialize};
use serde_json::{json, Value};

use crate::adapter;
use crate::choice::Choices;
use crate::cli::{self, Shown};
use crate::gen;
use crate::model::*;
use crate::props::c13;
use crate::runner::{Ctx, Prop, Tier, Violation};

#[derive(Clone, Debug, Serialize, Deserialize)]
pub struct Case {
    pub files: Vec<(String, String)>,
    pub source: String,
    pub release: bool,
    #[serde(default)]
    pub crlf: bool,
    #[serde(default)]
    pub missing_include: bool,
}

pub struct C18;

type Key = (String, usize, usize, usize, String, String);

fn key(s: &Shown) -> Key {
    (s.file.clone(), s.line, s.col_start, s.col_end, s.level.clone(), s.title.clone())
}

fn sorted(mut v: Vec<Key>) -> Vec<Key> {
    v.sort();
    v
}

impl C18 {
    fn check_case(case: &Case, ctx: &mut Ctx) -> Vec<Violation> {
        ctx.label(format!("source:{}", case.source));
        ctx.label(format!("files:{}", case.files.len()));
        ctx.label(if case.release { "profile:release" } else { "profile:dev" });
        if case.crlf {
            ctx.label("crlf");
        }
        if case.missing_include {
            ctx.label("missing-include");
        }
        let dir = cli::scratch("c18", crate::runner::next_serial());
        for (n, t) in &case.files {
            let _ = std::fs::write(dir.join(n), t);
        }
        let r = Self::run_all(case, &dir, ctx);
        let _ = std::fs::remove_dir_all(&dir);
        r
    }

    fn run_all(case: &Case, dir: &std::path::Path, ctx: &mut Ctx) -> Vec<Violation> {
        let base = case.files[0].0.clone();
        let all_text = case.files.iter().map(|(n, t)| format!("--- {n}\n{t}")).collect::<String>();
        let mk = |pair: &str, field: &str, msg: String| {
            Violation::new(format!("{msg}\n{all_text}"))
                .with("channel_pair", pair)
                .with("field", field)
        };
        let paths: Vec<String> = case.files.iter().map(|(n, _)| dir.join(n).to_string_lossy().into_owned()).collect();
        let canon: Vec<String> = paths
            .iter()
            .map(|p| std::fs::canonicalize(p).map(|c| c.to_string_lossy().into_owned()).unwrap_or_else(|_| p.clone()))
            .collect();
        let known: Vec<String> = paths.iter().chain(canon.iter()).cloned().collect();
        let name_of = |p: &str| -> String {
            known.iter().position(|q| q == p).map(|k| case.files[k % case.files.len()].0.clone()).unwrap_or_else(|| p.to_string())
        };
        let t = Duration::from_secs(120);
        let modes: Vec<(&str, Vec<&str>)> = vec![
            ("compact", vec!["lint", &base, "--compact", "--no-color"]),
            ("compact-all", vec!["lint", &base, "--compact", "--no-color", "--all-files"]),
            ("pretty", vec!["lint", &base, "--no-color"]),
            ("pretty-all", vec!["lint", &base, "--no-color", "--all-files"]),
            ("pretty-color-all", vec!["lint", &base, "--all-files"]),
            ("compact-color-all", vec!["lint", &base, "--compact", "--all-files"]),
            ("json", vec!["lint", &base, "--json"]),
            ("json-all", vec!["lint", &base, "--json", "--all-files"]),
        ];
        let mut outs: BTreeMap<&str, String> = BTreeMap::new();
        let mut failed: Vec<(&str, String)> = vec![];
        for (name, args) in &modes {
            let r = cli::run_rva(case.release, args, dir, t);
            ctx.fact("cli_invocations", 1);
            if r.timed_out && !r.cpu_limit_hit() {
                ctx.skip("cli_wall_clock_watchdog_inconclusive");
                return vec![];
            }
            if !r.clean_exit() || !r.stderr.is_empty() {
                failed.push((name, format!("status {:?} signal {:?}: {}", r.status, r.signal, r.stderr.chars().take(300).collect::<String>())));
                continue;
            }
            outs.insert(name, r.stdout);
        }
        if !failed.is_empty() {
            if outs.is_empty() {
                // every channel fails on this input: that is C06's subject, nothing to compare here
                ctx.skip("c06_cli_failure:all-modes");
                return vec![];
            }
            // some channels report the diagnostics and another one reports none of them
            let (name, how) = &failed[0];
            let ok: Vec<&str> = outs.keys().copied().collect();
            return vec![mk(
                &format!("{}/{}", name.split('-').next().unwrap_or(name), ok[0].split('-').next().unwrap_or(ok[0])),
                "channel-fails",
                format!("the modes {:?} print their diagnostics but mode {name} ends with {how}", ok),
            )];
        }
        let mut out = vec![];
        // JSON: valid, documented shape
        let (j, ja) = match (cli::parse_json(&outs["json"]), cli::parse_json(&outs["json-all"])) {
            (Ok(a), Ok(b)) => (a, b),
            (Err(e), _) | (_, Err(e)) => return vec![mk("json", "shape", e)],
        };
        let jkeys = |v: &Vec<cli::JsonDiag>| -> Result<Vec<Key>, String> {
            v.iter()
                .map(|d| {
                    let f = d.file.clone().ok_or_else(|| format!("JSON diagnostic {:?} without file", d.title))?;
                    Ok((name_of(&f), d.range.start.line + 1, d.range.start.column + 1, d.range.end.column + 1, d.level.clone(), d.title.clone()))
                })
                .collect()
        };
        let (jk, jak) = match (jkeys(&j), jkeys(&ja)) {
            (Ok(a), Ok(b)) => (a, b),
            (Err(e), _) | (_, Err(e)) => return vec![mk("json", "file", e)],
        };
        // compact
        let parse_c = |name: &str| cli::parse_compact(&outs[name], &known).map(|(v, o)| (v.iter().map(|s| Shown { file: name_of(&s.file), ..s.clone() }).collect::<Vec<_>>(), o));
        let (c, c_others) = match parse_c("compact") {
            Ok(x) => x,
            Err(e) => return vec![mk("compact", "shape", e)],
        };
        let (ca, _) = match parse_c("compact-all") {
            Ok(x) => x,
            Err(e) => return vec![mk("compact", "shape", e)],
        };
        // pretty
        let parse_p = |name: &str| cli::parse_pretty(&outs[name]);
        let (p, p_others) = match parse_p("pretty") {
            Ok(x) => x,
            Err(e) => return vec![mk("pretty", "shape", e)],
        };
        let (pa, _) = match parse_p("pretty-all") {
            Ok(x) => x,
            Err(e) => return vec![mk("pretty", "shape", e)],
        };
        ctx.fact("diagnostics_compared", ca.len() as u64);
        ctx.nontrivial = ca.len() >= 2;
        if ca.iter().any(|s| s.file != base) {
            ctx.label("diagnostic-in-included-file");
        }
        // (1) colour output with ANSI stripped equals --no-color
        if cli::strip_ansi(&outs["pretty-color-all"]) != outs["pretty-all"] {
            out.push(mk("pretty-color/pretty", "text", "colour output with the ANSI sequences removed differs from --no-color".into()));
        }
        if cli::strip_ansi(&outs["compact-color-all"]) != outs["compact-all"] {
            out.push(mk("compact-color/compact", "text", "compact colour output with the ANSI sequences removed differs from --no-color".into()));
        }
        // (2) compact vs JSON, same selection
        let cak: Vec<Key> = ca.iter().map(key).collect();
        if sorted(cak.clone()) != sorted(jak.clone()) {
            out.push(mk("compact/json", "items", format!("--all-files compact {:?} vs JSON {:?}", sorted(cak.clone()), sorted(jak.clone()))));
        }
        let jbase: Vec<Key> = jak.iter().filter(|k| k.0 == base).cloned().collect();
        let ck: Vec<Key> = c.iter().map(key).collect();
        if sorted(ck.clone()) != sorted(jbase) {
            out.push(mk("compact/json", "base-file-selection", format!("default compact {:?} vs the base-file items of JSON {:?}", ck, jak)));
        }
        let _ = jk;
        if c_others != ca.len() - c.len() || p_others != c_others {
            out.push(mk("compact/pretty", "other-files-count", format!("'found in other files' count: compact {c_others}, pretty {p_others}, actual {}", ca.len() - c.len())));
        }
        // (3) pretty vs compact: same items in the same order; excerpt and carets
        for (pp, cc, which) in [(&p, &c, "default"), (&pa, &ca, "all-files")] {
            if pp.len() != cc.len() {
                out.push(mk("pretty/compact", "count", format!("{which}: pretty shows {} items, compact {}", pp.len(), cc.len())));
                continue;
            }
            for (pi, ci) in pp.iter().zip(cc.iter()) {
                let pf = name_of(&pi.shown.file);
                if pf != ci.file || pi.shown.title != ci.title || pi.shown.level != ci.level {
                    out.push(mk("pretty/compact", "item", format!("{which}: pretty ({}, {:?}, {}) vs compact ({}, {:?}, {})", pf, pi.shown.title, pi.shown.level, ci.file, ci.title, ci.level)));
                    break;
                }
                let Some(text) = case.files.iter().find(|(n, _)| *n == ci.file).map(|(_, t)| t) else { continue };
                let file_lines: Vec<&str> = text.split('\n').collect();
                let Some(src) = file_lines.get(ci.line - 1) else {
                    out.push(mk("pretty/compact", "line", format!("{which}: line {} does not exist in {}", ci.line, ci.file)));
                    break;
                };
                match (&pi.excerpt, pi.carets) {
                    (Some(ex), carets) => {
                        ctx.fact("excerpts_checked", 1);
                        if pi.shown.line != ci.line {
                            out.push(mk("pretty/compact", "line", format!("{which}: excerpt is numbered {} but the diagnostic is on line {} ({:?})", pi.shown.line, ci.line, ci.title)));
                            break;
                        }
                        if ex.trim() != src.trim() {
                            out.push(mk("pretty/source", "excerpt", format!("{which}: excerpt {:?} is not line {} of {} ({:?})", ex, ci.line, ci.file, src)));
                            break;
                        }
                        let chars: Vec<char> = src.chars().collect();
                        let first_non_ws = chars.iter().position(|c| !c.is_whitespace()).unwrap_or(0);
                        let want_off = (ci.col_start - 1).saturating_sub(first_non_ws);
                        let want_n = ci.col_end + 1 - ci.col_start;
                        // the marker is "under" a column only if the gutters of the source line and of the marker line are equally wide
                        if let Some((b1, b2, b3)) = pi.bars {
                            if b1 != b2 || b2 != b3 {
                                out.push(mk(
                                    "pretty/source",
                                    "gutter",
                                    format!("{which}: the bars of the excerpt for line {} stand in columns {b1}, {b2}, {b3}: the marker is shifted against the source line ({:?})", ci.line, ci.title),
                                ));
                                break;
                            }
                        }
                        // the marker line holds blanks and the marker, nothing that moves the cursor off the line or back
                        if let Some(bad) = pi.marker.as_deref().unwrap_or("").chars().find(|c| *c != '^' && *c != '\t' && (c.is_control() || !c.is_whitespace() || matches!(c, '\u{2028}' | '\u{2029}'))) {
                            out.push(mk(
                                "pretty/source",
                                "marker-line",
                                format!("{which}: the marker line under {:?} contains U+{:04X}, which moves the marker away from columns {}:{} ({:?})", ex, bad as u32, ci.col_start, ci.col_end, ci.title),
                            ));
                            break;
                        }
                        match carets {
                            Some((off, n)) if off == want_off && n == want_n => {}
                            other => {
                                out.push(mk(
                                    "pretty/compact",
                                    "carets",
                                    format!("{which}: marker {:?} under {:?}, expected offset {want_off} length {want_n} for columns {}:{} ({:?})", other, ex, ci.col_start, ci.col_end, ci.title),
                                ));
                                break;
                            }
                        }
                    }
                    (None, _) => {
                        out.push(mk("pretty/source", "excerpt", format!("{which}: no source excerpt for {:?} at {}:{}", ci.title, ci.file, ci.line)));
                        break;
                    }
                }
            }
        }
        // (4) order: by position within each file; (5) titles non-empty, severity fixed per kind
        for v in [&ca, &c] {
            let mut last: BTreeMap<&str, (usize, usize)> = BTreeMap::new();
            for s in v.iter() {
                if let Some(prev) = last.get(s.file.as_str()) {
                    if (s.line, s.col_start) < *prev {
                        out.push(mk("compact", "order", format!("{:?} at {}:{}:{} comes after {}:{} of the same file", s.title, s.file, s.line, s.col_start, prev.0, prev.1)));
                        break;
                    }
                }
                last.insert(&s.file, (s.line, s.col_start));
            }
        }
        let mut sev: BTreeMap<String, String> = BTreeMap::new();
        for s in &ca {
            if s.title.trim().is_empty() {
                out.push(mk("compact", "title", format!("diagnostic without title at {}:{}", s.file, s.line)));
            }
            let kind = s.title.split(|c: char| c == ',' || c == ':').next().unwrap_or("").to_string();
            if let Some(l) = sev.get(&kind) {
                if *l != s.level {
                    out.push(mk("compact", "severity", format!("{kind:?} is reported as {l} and as {}", s.level)));
                }
            }
            sev.insert(kind, s.level.clone());
        }
        // (6) the library entry point used by the editor integration
        match adapter::run_entry(&case.files, &[]) {
            Ok(lib) => {
                let lk: Vec<Key> = lib
                    .iter()
                    .map(|d| (d.file.clone(), d.range.start.line + 1, d.range.start.col + 1, d.range.end.col + 1, d.level.clone(), d.title.clone()))
                    .collect();
                ctx.fact("library_runs_compared", 1);
                // the wording of a failed include depends on the reader (in-memory here, file system there)
                let norm = |v: &Vec<Key>| -> Vec<Key> {
                    v.iter()
                        .map(|k| {
                            let mut k = k.clone();
                            if k.5.starts_with("File not found: ") || k.5.starts_with("IO Error: ") {
                                k.5 = "<include failed>".into();
                            }
                            k
                        })
                        .collect()
                };
                let (lk, cak) = (norm(&lk), norm(&cak));
                if lk != cak {
                    out.push(mk("library/compact", "items", format!("RVParser::run gives {:?}, the CLI (--all-files) {:?}", lk, cak)));
                }
            }
            Err(p) => ctx.skip(&format!("c06_panic:{}", p.location())),
        }
        out.truncate(3);
        out
    }
}

impl Prop for C18 {
    type Case = Case;

    fn gen(ch: &mut Choices, tier: Tier) -> Option<Case> {
        let mut base = <c13::C13 as Prop>::gen(ch, tier)?;
        if ch.chance(1, 15) {
            // a file without a single instruction: data, labels and directives only (often with a label defined twice)
            let mut l = vec![Line::Dir(".data".into(), vec![])];
            let n = 2 + ch.below(4);
            let dup = if ch.chance(2, 3) { Some(ch.below(n)) } else { None };
            for k in 0..n {
                l.push(Line::Label(format!("d{k}")));
                match ch.below(3) {
                    0 => l.push(Line::Dir(".word".into(), vec![Opd::I(ch.int_in(0, 9)), Opd::I(ch.int_in(0, 9))])),
                    1 => l.push(Line::Dir(".asciz".into(), vec![Opd::S("text".into())])),
                    _ => {}
                }
            }
            if let Some(k) = dup {
                let at = 1 + ch.below(l.len());
                l.insert(at, Line::Label(format!("d{k}")));
            }
            if ch.chance(1, 3) {
                l.push(Line::Dir(".text".into(), vec![]));
                l.push(Line::Label("start".into()));
            }
            base.lines = l;
            base.source = "data-only".into();
        }
        let mut lines = base.lines;
        if ch.chance(1, 3) {
            gen::inject_defects(&mut lines, ch, 2);
        }
        let files = if ch.chance(1, 2) {
            gen::split_include(&lines, ch, 3)
        } else {
            vec![("main.s".to_string(), lines)]
        };
        let mut opts = StyleOpts::all();
        if ch.chance(1, 2) {
            opts = StyleOpts::none();
            opts.leading_blank = true;
            opts.indent = true;
            opts.comments = true;
        }
        // twin lines: the first line of two files jumps to an undefined label (same place in
        // each file, names of the same length)
        let mut files = files;
        if files.len() >= 2 && ch.chance(1, 5) {
            let k = 1 + ch.below(files.len() - 1);
            files[0].1.insert(0, Line::Ins(Ins::new("j", vec![Opd::L("nowhereA".into())])));
            files[k].1.insert(0, Line::Ins(Ins::new("j", vec![Opd::L("nowhereB".into())])));
        }
        // one multi-file case in three spells some include paths with a leading "./"
        if files.len() >= 2 && ch.chance(1, 3) {
            for (_, ls) in files.iter_mut() {
                for l in ls.iter_mut() {
                    if let Line::Dir(d, ops) = l {
                        if d == ".include" && ch.chance(1, 2) {
                            if let Some(Opd::S(p)) = ops.first_mut() {
                                *p = format!("./{p}");
                            }
                        }
                    }
                }
            }
        }
        let missing_include = ch.chance(1, 8);
        let crlf = ch.chance(1, 6);
        if missing_include {
            let k = ch.below(files.len());
            let at = ch.below(files[k].1.len() + 1);
            let name = *ch.pick(&["nowhere.s", "./nowhere.s", "sub/nowhere.s", ""]);
            files[k].1.insert(at, Line::Raw(format!("    .include \"{name}\"")));
        }
        let files = files
            .iter()
            .map(|(n, l)| {
                let t = render(l, ch, &opts).text;
                (n.clone(), if crlf { t.replace('\n', "\r\n") } else { t })
            })
            .collect();
        Some(Case {
            files,
            source: base.source,
            release: ch.chance(1, 4),
            crlf,
            missing_include,
        })
    }

    fn check(case: &Case, ctx: &mut Ctx) -> Vec<Violation> {
        C18::check_case(case, ctx)
    }

    fn show(case: &Case) -> Value {
        json!({"files": case.files, "release": case.release})
    }
}
