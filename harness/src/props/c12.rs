//! C12 — analysis results are a stable fixed point of the pass pipeline.

use serde::{Deserialize, Serialize};
use serde_json::{json, Value};

use crate::adapter::{self, single, AnalyzeOpts, CfgView, Diag, ExtraPass};
use crate::choice::Choices;
use crate::gen::wild::{self, WildInfo, WildOpts};
use crate::model::*;
use crate::runner::{Ctx, Prop, Tier, Violation};

#[derive(Clone, Debug, Serialize, Deserialize)]
pub struct Case {
    pub lines: Vec<Line>,
    pub extra: Vec<ExtraPass>,
    pub info: WildInfo,
}

pub struct C12;

/// First difference between two views, as (what, description).
pub fn diff_views(a: &CfgView, b: &CfgView) -> Option<(String, String)> {
    if a.nodes.len() != b.nodes.len() {
        return Some(("node-count".into(), format!("{} vs {} nodes", a.nodes.len(), b.nodes.len())));
    }
    for (x, y) in a.nodes.iter().zip(b.nodes.iter()) {
        macro_rules! cmp {
            ($f:ident, $kind:expr) => {
                if x.$f != y.$f {
                    return Some((
                        $kind.to_string(),
                        format!("node #{} {:?}: {} {:?} vs {:?}", x.idx, x.shown, stringify!($f), x.$f, y.$f),
                    ));
                }
            };
        }
        cmp!(nexts, "edges");
        cmp!(prevs, "edges");
        cmp!(shown, "node");
        cmp!(reg_in, "facts:values");
        cmp!(reg_out, "facts:values");
        cmp!(mem_in, "facts:memory");
        cmp!(mem_out, "facts:memory");
        cmp!(live_in, "facts:liveness");
        cmp!(live_out, "facts:liveness");
        cmp!(u_def, "facts:udef");
        cmp!(funcs, "functions");
        cmp!(known_ecall, "facts:values");
    }
    // the order inside a function's node list is not a fact (C11 compares the set)
    let norm = |v: &CfgView| {
        let mut f = v.functions.clone();
        for x in f.iter_mut() {
            x.nodes.sort_unstable();
        }
        f
    };
    if norm(a) != norm(b) {
        return Some(("functions".into(), format!("{:?} vs {:?}", norm(a), norm(b))));
    }
    None
}

fn sorted(d: &[Diag]) -> Vec<Diag> {
    let mut v = d.to_vec();
    v.sort();
    v
}

impl Prop for C12 {
    type Case = Case;

    fn gen(ch: &mut Choices, tier: Tier) -> Option<Case> {
        let big = tier == Tier::Thorough;
        let o = WildOpts {
            max_funcs: if big { 4 } else { 3 },
            max_blocks: if big { 5 } else { 3 },
            max_body: if big { 5 } else { 3 },
            chaos: ch.chance(1, 2),
            c03_domain: false,
            faults: false,
            data: true,
        };
        wild::CSR_TRAFFIC.store(true, std::sync::atomic::Ordering::Relaxed);
        let (lines, info) = wild::program(ch, &o);
        wild::CSR_TRAFFIC.store(false, std::sync::atomic::Ordering::Relaxed);
        let n = ch.below(7);
        let extra = (0..n)
            .map(|_| match ch.below(3) {
                0 => ExtraPass::Available,
                1 => ExtraPass::EcallTermination,
                _ => ExtraPass::Liveness,
            })
            .collect();
        Some(Case { lines, extra, info })
    }

    fn check(case: &Case, ctx: &mut Ctx) -> Vec<Violation> {
        let mut out = vec![];
        let text = render_plain(&case.lines).text;
        let files = single(&text);
        let i = &case.info;
        if i.back_branches > 0 {
            ctx.label("loop");
        }
        if i.multi_return {
            ctx.label("multiple-returns");
        }
        if i.recursion {
            ctx.label("recursion");
        }
        if i.exit_in_function {
            ctx.label("exit-in-function");
        }
        ctx.label(format!("extra-passes:{}", case.extra.len()));
        let opts = AnalyzeOpts {
            extra: case.extra.clone(),
            want_yaml: false,
            sweep_limit: Some(20_000),
        };
        let a = match adapter::analyze(&files, &opts) {
            Ok(a) => a,
            Err(p) if p.is_sweep_limit() => {
                out.push(
                    Violation::new(format!("the analysis did not reach a fixed point within 20000 sweeps\n{text}"))
                        .with("what", "no-fixed-point")
                        // stores and loads through a pointer swapped with uscratch, inside a loop
                        .with("csr_pointer_traffic", if text.contains("uscratch") { "yes" } else { "no" }),
                );
                return out;
            }
            Err(p) => {
                ctx.skip(&format!("c06_panic:{}", p.location()));
                return out;
            }
        };
        let Some(v1) = a.cfg else {
            ctx.skip(&format!("no_cfg:{}", a.cfg_error.map(|e| e.code).unwrap_or_default()));
            return out;
        };
        let n = v1.nodes.len() as u64;
        ctx.nontrivial = (i.back_branches > 0 || i.multi_return || i.exit_in_function) && n >= 8;
        // sweeps
        ctx.max("sweeps_available_total", a.work.sweeps_available);
        ctx.max("sweeps_liveness_total", a.work.sweeps_liveness);
        ctx.max("nodes", n);
        ctx.max("sweeps_available_x100_per_node", a.work.sweeps_available * 100 / n.max(1));
        ctx.max("sweeps_liveness_x100_per_node", a.work.sweeps_liveness * 100 / n.max(1));
        ctx.fact("sweep_bounds_checked", 1);
        // the value analysis runs 4 times (interrupt-handler stage + 3 in the pipeline), liveness once
        let bound_av = 4 * (4 + 2 * n);
        let bound_lv = 4 + 2 * n;
        if a.work.sweeps_available > bound_av || a.work.sweeps_liveness > bound_lv {
            out.push(
                Violation::new(format!(
                    "fixed point reached after {} value-analysis sweeps (bound {bound_av}) and {} liveness sweeps (bound {bound_lv}) for {n} nodes\n{text}",
                    a.work.sweeps_available, a.work.sweeps_liveness
                ))
                .with("what", "sweep-bound"),
            );
        }
        // (1) extra pass runs change nothing
        if let Some((v2, l2)) = &a.after_extra {
            ctx.fact("extra_sequences_checked", 1);
            if let Some((what, d)) = diff_views(&v1, v2) {
                let seq_kind = if case.extra.iter().all(|e| *e == ExtraPass::Liveness) {
                    "liveness-only"
                } else if case.extra.iter().all(|e| *e == ExtraPass::Available) {
                    "values-only"
                } else {
                    "mixed"
                };
                out.push(
                    Violation::new(format!(
                        "running {:?} again on the finished graph changed it: {d}\n{text}",
                        case.extra
                    ))
                    .with("what", "not-a-fixed-point")
                    .with("changed", what)
                    .with("sequence", seq_kind),
                );
            } else if sorted(&a.lints) != sorted(l2) {
                out.push(
                    Violation::new(format!(
                        "running {:?} again changed the diagnostics: {:?} vs {:?}\n{text}",
                        case.extra,
                        sorted(&a.lints).iter().map(|d| (&d.code, d.range.start.raw)).collect::<Vec<_>>(),
                        sorted(l2).iter().map(|d| (&d.code, d.range.start.raw)).collect::<Vec<_>>()
                    ))
                    .with("what", "not-a-fixed-point")
                    .with("changed", "diagnostics"),
                );
            }
        }
        // (2) analysing the same program again gives the same facts
        match adapter::analyze(&files, &AnalyzeOpts::default()) {
            Ok(b) => {
                if let Some(v3) = b.cfg {
                    ctx.fact("reanalyses_compared", 1);
                    if let Some((what, d)) = diff_views(&v1, &v3) {
                        out.push(
                            Violation::new(format!("analysing the same program twice gave different results: {d}\n{text}"))
                                .with("what", "reanalysis-differs")
                                .with("changed", what),
                        );
                    } else if sorted(&a.lints) != sorted(&b.lints) {
                        out.push(
                            Violation::new(format!(
                                "analysing the same program twice gave different diagnostics: {:?} vs {:?}\n{text}",
                                sorted(&a.lints).iter().map(|d| (&d.code, &d.title, d.range.start.raw)).collect::<Vec<_>>(),
                                sorted(&b.lints).iter().map(|d| (&d.code, &d.title, d.range.start.raw)).collect::<Vec<_>>()
                            ))
                                .with("what", "reanalysis-differs")
                                .with("changed", "diagnostics"),
                        );
                    }
                }
            }
            Err(p) => ctx.skip(&format!("c06_panic:{}", p.location())),
        }
        out.truncate(2);
        out
    }

    fn enumerate(tier: Tier, ctx: &mut Ctx) -> (u64, Vec<(Case, Vec<Violation>)>) {
        // structural families whose fixed point needs many sweeps
        let sizes: &[usize] = if tier == Tier::Thorough { &[4, 20, 70, 130, 300] } else { &[4, 20, 70, 130] };
        let all = vec![ExtraPass::Available, ExtraPass::EcallTermination, ExtraPass::Liveness];
        let mut n = 0;
        let mut fails = vec![];
        for kind in 0..3 {
            for size in sizes {
                let mut lines: Vec<Line> = vec![label("main")];
                match kind {
                    // blocks laid out last-to-first: a value defined in the first executed block is
                    // used in the last one, across `size` backward jumps
                    0 => {
                        lines.push(ins("li", vec![r(9), i(7)]));
                        lines.push(ins("j", vec![l(&format!("b{}", size - 1))]));
                        for k in 0..*size {
                            lines.push(label(&format!("b{k}")));
                            lines.push(ins("addi", vec![r(5), r(5), i(1)]));
                            if k == 0 {
                                lines.push(ins("mv", vec![r(10), r(9)]));
                                lines.push(ins("li", vec![r(17), i(1)]));
                                lines.push(ins("ecall", vec![]));
                                lines.push(ins("li", vec![r(17), i(10)]));
                                lines.push(ins("ecall", vec![]));
                            } else {
                                lines.push(ins("j", vec![l(&format!("b{}", k - 1))]));
                            }
                        }
                    }
                    // nested counted loops
                    1 => {
                        let d = (*size).min(40);
                        lines.push(ins("li", vec![r(9), i(1)]));
                        for k in 0..d {
                            lines.push(ins("li", vec![r(5), i(k as i64)]));
                            lines.push(label(&format!("l{k}")));
                        }
                        for k in (0..d).rev() {
                            lines.push(ins("addi", vec![r(9), r(9), i(1)]));
                            lines.push(ins("addi", vec![r(5), r(5), i(-1)]));
                            lines.push(ins("bnez", vec![r(5), l(&format!("l{k}"))]));
                        }
                        lines.push(ins("mv", vec![r(10), r(9)]));
                        lines.push(ins("li", vec![r(17), i(93)]));
                        lines.push(ins("ecall", vec![]));
                    }
                    // a chain of diamonds with a stack slot carried through
                    _ => {
                        lines.push(ins("addi", vec![r(2), r(2), i(-8)]));
                        lines.push(ins("li", vec![r(9), i(3)]));
                        lines.push(ins("sw", vec![r(9), m(0, 2)]));
                        for k in 0..*size {
                            lines.push(ins("beqz", vec![r(9), l(&format!("e{k}"))]));
                            lines.push(ins("addi", vec![r(9), r(9), i(1)]));
                            lines.push(ins("j", vec![l(&format!("j{k}"))]));
                            lines.push(label(&format!("e{k}")));
                            lines.push(ins("addi", vec![r(9), r(9), i(2)]));
                            lines.push(label(&format!("j{k}")));
                        }
                        lines.push(ins("lw", vec![r(10), m(0, 2)]));
                        lines.push(ins("add", vec![r(10), r(10), r(9)]));
                        lines.push(ins("li", vec![r(17), i(93)]));
                        lines.push(ins("ecall", vec![]));
                    }
                }
                let case = Case {
                    lines,
                    extra: all.clone(),
                    info: WildInfo {
                        back_branches: *size,
                        ..Default::default()
                    },
                };
                n += 1;
                let mut c = Ctx::default();
                let vs = <C12 as Prop>::check(&case, &mut c);
                for (k, v) in c.maxima {
                    ctx.max(&k, v);
                }
                for (k, v) in c.facts {
                    ctx.fact(&k, v);
                }
                if !vs.is_empty() {
                    fails.push((case, vs));
                }
            }
        }
        ctx.fact("structural_family_cases", n);
        (n, fails)
    }

    fn show(case: &Case) -> Value {
        json!({"program": render_plain(&case.lines).text, "extra_passes": case.extra, "features": case.info})
    }
}
