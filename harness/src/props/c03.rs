//! C03 — the control-flow graph matches the program's real control flow.

use std::collections::BTreeSet;

use serde::{Deserialize, Serialize};
use serde_json::{json, Value};

use crate::adapter::{self, single, CfgView};
use crate::choice::Choices;
use crate::gen::wild::{self, WildInfo, WildOpts};
use crate::link::{link, Link};
use crate::machine::{flatten, Flat, Inputs, Kind, Machine};
use crate::model::*;
use crate::runner::{Ctx, Prop, Tier, Violation};

#[derive(Clone, Debug, Serialize, Deserialize)]
pub struct Case {
    pub lines: Vec<Line>,
    pub inputs: Vec<Inputs>,
    pub info: WildInfo,
    pub repeats: usize,
}

pub struct C03;

pub fn is_source_ret(i: &Ins) -> bool {
    match (i.mn.as_str(), i.ops.as_slice()) {
        ("ret", _) | ("uret", _) => true,
        ("jr", [Opd::R(1)]) => true,
        ("jalr", [Opd::R(0), Opd::R(1), Opd::I(0)]) => true,
        ("jalr", [Opd::R(0), Opd::M(0, 1)]) => true,
        _ => false,
    }
}

/// Instructions after which the analyzer may not keep a fall-through edge.
/// (`jal t0, L` never falls through on a machine either, but the statement
/// only classifies edges; a fall-through edge there is not reported.)
pub fn never_falls_through(i: &Ins) -> bool {
    is_source_ret(i)
        || matches!(i.mn.as_str(), "j" | "b" | "jr")
        || (i.mn == "jal" && matches!(i.ops.first(), Some(Opd::R(0))))
        || (i.mn == "jalr" && matches!(i.ops.first(), Some(Opd::R(0))))
}

pub fn label_operand(i: &Ins) -> Option<&String> {
    i.ops.iter().find_map(|o| match o {
        Opd::L(l) => Some(l),
        _ => None,
    })
}

pub fn is_call(i: &Ins) -> bool {
    match (i.mn.as_str(), i.ops.as_slice()) {
        ("call", _) => true,
        ("jal", [Opd::L(_)]) => true,
        ("jal", [Opd::R(1), Opd::L(_)]) => true,
        _ => false,
    }
}

fn static_checks(lines: &[Line], cfg: &CfgView, lk: &Link, ctx: &mut Ctx, out: &mut Vec<Violation>, text: &str) {
    let n = cfg.nodes.len();
    let describe = |k: usize| format!("#{k} {:?}", cfg.nodes[k].shown);
    // (i) exact inverses, no foreign neighbours
    for a in &cfg.nodes {
        if a.foreign_neighbours > 0 {
            out.push(
                Violation::new(format!("{} has {} neighbour(s) that are not nodes of the graph\n{text}", describe(a.idx), a.foreign_neighbours))
                    .with("clause", "i-foreign"),
            );
        }
        for b in &a.nexts {
            ctx.fact("edges_checked", 1);
            if !cfg.nodes[*b].prevs.contains(&a.idx) {
                out.push(
                    Violation::new(format!("{} is a successor of {} but not vice versa\n{text}", describe(*b), describe(a.idx)))
                        .with("clause", "i-asymmetric")
                        .with("a_kind", a.kind.clone()),
                );
            }
        }
        for b in &a.prevs {
            if !cfg.nodes[*b].nexts.contains(&a.idx) {
                out.push(
                    Violation::new(format!("{} is a predecessor of {} but not vice versa\n{text}", describe(*b), describe(a.idx)))
                        .with("clause", "i-asymmetric")
                        .with("a_kind", a.kind.clone()),
                );
            }
        }
    }
    // (iii) every edge is legitimate
    for a in &cfg.nodes {
        let a_ins: Option<&Ins> = lk.node_line[a.idx].and_then(|li| match &lines[li] {
            Line::Ins(i) => Some(i),
            _ => None,
        });
        for b in &a.nexts {
            let bn = &cfg.nodes[*b];
            let fall = *b == a.idx + 1 && a_ins.map(|i| !never_falls_through(i)).unwrap_or(true);
            let by_label = a_ins
                .and_then(label_operand)
                .map(|l| !is_call(a_ins.unwrap()) && bn.labels.contains(l))
                .unwrap_or(false);
            let merge = a_ins.map(is_source_ret).unwrap_or(false)
                && cfg
                    .functions
                    .iter()
                    .any(|f| f.exit == *b && f.nodes.contains(&a.idx));
            if !(fall || by_label || merge) {
                out.push(
                    Violation::new(format!(
                        "edge {} -> {} is neither a fall-through, nor a branch/jump to the written label, nor the merge of an additional return\n{text}",
                        describe(a.idx),
                        describe(*b)
                    ))
                    .with("clause", "iii-illegitimate-edge")
                    .with("a_kind", a.kind.clone()),
                );
            }
        }
        // (iv) edges stop at exit ecalls
        if a.is_ecall && matches!(a.known_ecall, Some(10) | Some(93)) && !a.nexts.is_empty() {
            out.push(
                Violation::new(format!("exit ecall {} has successors {:?}\n{text}", describe(a.idx), a.nexts))
                    .with("clause", "iv-exit-has-successor"),
            );
        }
    }
    // (iv') the same with an own, deliberately simple propagation of the constant in a7: an ecall
    // that only the numbers 10 or only the number 93 can reach (over paths that do not run through
    // such an ecall) ends the program in every execution, whatever the analyzer knows about it
    // nodes the program entry reaches in the analyzer's own graph (through calls as well): an ecall
    // the graph holds to be dead code is none of this clause's business (clause v covers wrongly dead code)
    let mut reach_g = vec![false; cfg.nodes.len()];
    {
        let mut stack = if cfg.nodes.is_empty() { vec![] } else { vec![0usize] };
        while let Some(k) = stack.pop() {
            if std::mem::replace(&mut reach_g[k], true) {
                continue;
            }
            stack.extend(cfg.nodes[k].nexts.iter().copied());
            if let Some(Line::Ins(i)) = lk.node_line[k].map(|li| &lines[li]) {
                if is_call(i) {
                    if let Some(l) = label_operand(i) {
                        stack.extend(cfg.nodes.iter().filter(|n| n.labels.contains(l)).map(|n| n.idx));
                    }
                }
            }
        }
    }
    let dead_lines: BTreeSet<usize> = (0..cfg.nodes.len()).filter(|k| !reach_g[*k]).filter_map(|k| lk.node_line[k]).collect();
    for li in definite_exits(lines, &dead_lines) {
        if let Some(k) = lk.line_nodes.get(&li).and_then(|v| v.last().copied()) {
            if !reach_g[k] {
                continue;
            }
            let a = &cfg.nodes[k];
            ctx.fact("definite_exits_checked", 1);
            if a.is_ecall && !a.nexts.is_empty() {
                out.push(
                    Violation::new(format!(
                        "ecall {} (line {}) is reached with a7 = 10 only or with a7 = 93 only, yet it has successors {:?}\n{text}",
                        describe(a.idx),
                        li + 1,
                        a.nexts
                    ))
                    .with("clause", "iv-exit-has-successor")
                    .with("by", "own-constant-propagation"),
                );
            }
        }
    }
    let _ = n;
}

/// Model line indices of the ecalls that end the program in every execution, by a forward
/// propagation of the set of constants a7 can hold (None = anything). Code on `dead_lines` (dead in
/// the graph under test) leaves anything in a7, every branch goes both ways, `li a7, c` and
/// `addi a7, zero, c` give a constant, every other write to a7 and every call give "anything".
/// Exits found are cut and the propagation is repeated until no further exit appears.
pub fn definite_exits(lines: &[Line], dead_lines: &BTreeSet<usize>) -> BTreeSet<usize> {
    use std::collections::BTreeMap;
    let ins: Vec<(usize, &Ins)> = lines.iter().enumerate().filter_map(|(k, l)| if let Line::Ins(i) = l { Some((k, i)) } else { None }).collect();
    let n = ins.len();
    // label -> index of the next instruction
    let mut label_at: BTreeMap<&str, usize> = BTreeMap::new();
    let mut next_ins = 0;
    for (k, l) in lines.iter().enumerate() {
        while next_ins < n && ins[next_ins].0 < k {
            next_ins += 1;
        }
        if let Line::Label(name) = l {
            label_at.insert(name.as_str(), next_ins);
        }
    }
    let target = |i: &Ins| label_operand(i).and_then(|l| label_at.get(l.as_str()).copied()).filter(|t| *t < n);
    let mut exits: BTreeSet<usize> = BTreeSet::new();
    loop {
        // successors under the current set of exits
        let succ = |k: usize| -> Vec<usize> {
            let i = ins[k].1;
            let fall = if k + 1 < n { vec![k + 1] } else { vec![] };
            match i.mn.as_str() {
                "ecall" if exits.contains(&k) => vec![],
                "ret" | "uret" | "jr" | "jalr" => vec![],
                "j" => target(i).into_iter().collect(),
                "jal" | "call" if is_call(i) => fall,
                "jal" => target(i).into_iter().collect(),
                // both ways for every branch, also for one that can only go one way: the graph may
                // legitimately keep both edges, and more paths only make fewer exits definite
                m if m.starts_with('b') && label_operand(i).is_some() => {
                    let mut v = fall;
                    v.extend(target(i));
                    v
                }
                _ => fall,
            }
        };
        // in[k]: None = anything, Some(set) = only these constants (empty = not reached yet)
        let mut inn: Vec<Option<BTreeSet<i64>>> = vec![Some(BTreeSet::new()); n];
        let mut has_pred = vec![false; n];
        for k in 0..n {
            for t in succ(k) {
                has_pred[t] = true;
            }
        }
        if n > 0 {
            inn[0] = None; // the program starts with anything in a7
        }
        for k in 0..n {
            if !has_pred[k] {
                inn[k] = None; // dead code: a7 holds anything
            }
            // a function is entered with whatever its callers left in a7
            if is_call(ins[k].1) {
                if let Some(t) = target(ins[k].1) {
                    inn[t] = None;
                }
            }
        }
        let out_of = |k: usize, v: &Option<BTreeSet<i64>>| -> Option<BTreeSet<i64>> {
            let i = ins[k].1;
            // code the graph under test holds to be dead leaves anything in a7 (no assumption about
            // whether values flow out of dead code)
            if dead_lines.contains(&ins[k].0) {
                return None;
            }
            let writes_a7 = crate::arch::rw(i).1 & (1 << 17) != 0;
            match (i.mn.as_str(), i.ops.as_slice()) {
                ("li", [Opd::R(17), Opd::I(c)]) => Some([*c].into_iter().collect()),
                ("addi", [Opd::R(17), Opd::R(0), Opd::I(c)]) => Some([*c].into_iter().collect()),
                _ if is_call(i) => None,
                _ if writes_a7 => None,
                _ => v.clone(),
            }
        };
        let mut changed = true;
        while changed {
            changed = false;
            for k in 0..n {
                let o = out_of(k, &inn[k]);
                for t in succ(k) {
                    let merged = match (&inn[t], &o) {
                        (None, _) | (_, None) => None,
                        (Some(a), Some(b)) => Some(a.union(b).copied().collect::<BTreeSet<i64>>()),
                    };
                    if merged != inn[t] {
                        inn[t] = merged;
                        changed = true;
                    }
                }
            }
        }
        let mut fresh: Vec<usize> = vec![];
        for k in 0..n {
            if ins[k].1.mn == "ecall" && !exits.contains(&k) {
                if let Some(set) = &inn[k] {
                    if set.len() == 1 && (set.contains(&10) || set.contains(&93)) {
                        fresh.push(k);
                    }
                }
            }
        }
        if fresh.is_empty() {
            return exits.iter().map(|k| ins[*k].0).collect();
        }
        // one at a time: the values at the other candidates may have come over the edges behind this one
        exits.insert(fresh[0]);
    }
}

fn has_edge(cfg: &CfgView, lk: &Link, from: usize, to: usize) -> bool {
    if cfg.nodes[from].nexts.contains(&to) {
        return true;
    }
    if let Some(e) = lk.entry_before.get(&to) {
        return cfg.nodes[from].nexts.contains(e) && cfg.nodes[*e].nexts.contains(&to);
    }
    false
}

fn dynamic_checks(
    lines: &[Line],
    flat: &Flat,
    cfg: &CfgView,
    lk: &Link,
    inputs: &[Inputs],
    unreachable_lines: &BTreeSet<usize>,
    ctx: &mut Ctx,
    out: &mut Vec<Violation>,
    text: &str,
) -> usize {
    let mut executed: BTreeSet<usize> = BTreeSet::new();
    let describe = |t: usize| format!("line {} {:?}", flat.text[t].line + 1, render_plain(&[lines[flat.text[t].line].clone()]).text.trim());
    for inp in inputs {
        let mut m = Machine::new(flat, inp, 600);
        loop {
            let top = m.acts.last().cloned();
            let depth = m.acts.len();
            let Some(s) = m.step() else { break };
            executed.insert(s.line);
            if unreachable_lines.contains(&s.line) {
                out.push(
                    Violation::new(format!("{} was executed but is reported as unreachable code\n{text}", describe(s.idx)))
                        .with("clause", "v-reached-but-unreachable"),
                );
                return executed.len();
            }
            // edges between the nodes of one statement
            if let Some(ns) = lk.line_nodes.get(&s.line) {
                for w in ns.windows(2) {
                    if !cfg.nodes[w[0]].nexts.contains(&w[1]) {
                        out.push(Violation::new(format!("the two nodes of {} are not connected\n{text}", describe(s.idx))).with("clause", "ii-missing-edge"));
                    }
                }
            }
            let Some(next) = s.next else { break };
            let (from_t, to_t) = match s.kind {
                Kind::Call { .. } => continue,
                Kind::Ret => {
                    // a return that pops the activation gives the call -> next-instruction transfer
                    if m.acts.len() < depth {
                        match top {
                            Some(a) if a.ret_to == next => (a.call_site, next),
                            _ => continue,
                        }
                    } else {
                        continue;
                    }
                }
                Kind::IndirectJump => continue,
                _ => (s.idx, next),
            };
            let (Some(a), Some(b)) = (lk.last_node(flat, from_t), lk.first_node(flat, to_t)) else {
                ctx.skip("unmapped_instruction");
                continue;
            };
            ctx.fact("dynamic_transfers_checked", 1);
            if !has_edge(cfg, lk, a, b) {
                out.push(
                    Violation::new(format!(
                        "an execution went from {} to {} but the graph has no such edge (successors of #{a}: {:?})\n{text}",
                        describe(from_t),
                        describe(to_t),
                        cfg.nodes[a].nexts
                    ))
                    .with("clause", "ii-missing-edge")
                    .with("transfer", format!("{:?}", s.kind).split(' ').next().unwrap_or("").to_string()),
                );
                return executed.len();
            }
        }
    }
    executed.len()
}

impl C03 {
    fn check_case(case: &Case, ctx: &mut Ctx) -> Vec<Violation> {
        let mut out = vec![];
        let rd = render_plain(&case.lines);
        let files = single(&rd.text);
        let flat = flatten(&case.lines);
        let i = &case.info;
        for (on, name) in [
            (i.back_branches > 0, "back-branch"),
            (i.calls > 0, "call"),
            (i.multi_return, "multiple-returns"),
            (i.exit_in_function, "exit-in-function"),
            (i.dead_block, "dead-block"),
            (i.cross_region, "cross-region-jump"),
            (i.fallthrough_into_function, "fallthrough-into-function"),
            (i.recursion, "recursion"),
        ] {
            if on {
                ctx.label(name);
            }
        }
        let mut executed = 0;
        for rep in 0..case.repeats.max(1) {
            let a = match adapter::analyze(&files, &Default::default()) {
                Ok(a) => a,
                Err(p) => {
                    ctx.skip(&format!("c06_panic:{}", p.location()));
                    return out;
                }
            };
            if !a.parse_errors.is_empty() {
                ctx.skip("generator_parse_error");
                return out;
            }
            let Some(cfg) = a.cfg else {
                let code = a.cfg_error.map(|e| e.code).unwrap_or_default();
                // no graph at all because of "a label without an instruction", although every label of
                // the text is followed by an instruction: there is nothing that could match the control flow
                let every_label_has_code = case.lines.iter().enumerate().all(|(k, l)| !matches!(l, Line::Label(_)) || case.lines[k + 1..].iter().any(|y| matches!(y, Line::Ins(_))));
                if code == "cfg:label-without-instruction" && every_label_has_code {
                    out.push(
                        Violation::new(format!("no graph is built (\"label without instruction\") although every label of the program is followed by an instruction\n{}", rd.text))
                            .with("clause", "no-graph")
                            .with("code", code),
                    );
                    return out;
                }
                ctx.skip(&format!("no_cfg:{code}"));
                return out;
            };
            let lk = link(&rd, &case.lines, &cfg);
            if !lk.complete {
                ctx.skip("statement_node_correspondence_incomplete");
                return out;
            }
            static_checks(&case.lines, &cfg, &lk, ctx, &mut out, &rd.text);
            if rep == 0 {
                let ti = TextIndex::new(&rd.text);
                let by_line: std::collections::HashMap<usize, usize> = rd
                    .map
                    .iter()
                    .enumerate()
                    .map(|(k, ls)| (ls.line, k))
                    .collect();
                let unreachable: BTreeSet<usize> = a
                    .lints
                    .iter()
                    .filter(|d| d.code == "unreachable-code")
                    .filter_map(|d| by_line.get(&ti.line_col(d.range.start.raw).0).copied())
                    .collect();
                executed = dynamic_checks(&case.lines, &flat, &cfg, &lk, &case.inputs, &unreachable, ctx, &mut out, &rd.text);
            }
            if !out.is_empty() {
                break;
            }
        }
        ctx.nontrivial = (i.back_branches > 0 || i.calls > 0) && executed >= 5;
        out.truncate(3);
        out
    }
}

impl Prop for C03 {
    type Case = Case;

    fn gen(ch: &mut Choices, tier: Tier) -> Option<Case> {
        let big = tier == Tier::Thorough;
        let o = WildOpts {
            max_funcs: if big { 4 } else { 3 },
            max_blocks: if big { 5 } else { 3 },
            max_body: if big { 5 } else { 3 },
            chaos: ch.chance(2, 3),
            c03_domain: true,
            faults: false,
            data: true,
        };
        let (lines, info) = wild::program(ch, &o);
        let n_inputs = if big { 6 } else { 4 };
        let inputs = (0..n_inputs).map(|_| Inputs::from_choices(ch)).collect();
        let repeats = if info.multi_return { 3 } else { 1 };
        Some(Case {
            lines,
            inputs,
            info,
            repeats,
        })
    }

    fn check(case: &Case, ctx: &mut Ctx) -> Vec<Violation> {
        C03::check_case(case, ctx)
    }

    fn show(case: &Case) -> Value {
        json!({"program": render_plain(&case.lines).text, "n_input_vectors": case.inputs.len(), "features": case.info})
    }
}

#[cfg(test)]
mod tests {
    use super::*;

    #[test]
    fn exit_chain_is_found_stage_by_stage() {
        // each further exit is reached by its own branch (number known) and by falling out of the previous one
        let p = vec![
            label("main"),
            ins("li", vec![r(17), i(10)]),
            ins("beqz", vec![r(10), l("plain")]),
            ins("li", vec![r(17), i(93)]),
            ins("beqz", vec![r(11), l("status")]),
            ins("li", vec![r(17), i(10)]),
            ins("ecall", vec![]),
            label("status"),
            ins("ecall", vec![]),
            label("plain"),
            ins("ecall", vec![]),
            ins("li", vec![r(10), i(0)]),
            ins("li", vec![r(17), i(10)]),
            ins("ecall", vec![]),
        ];
        let e = definite_exits(&p, &BTreeSet::new());
        // (the caller drops what the graph under test holds to be dead, here the last one)
        assert_eq!(e.into_iter().collect::<Vec<_>>(), vec![6, 8, 10, 13]);
        // a number that may be 10 or 5 is no exit; dead code says nothing
        let q = vec![
            label("main"),
            ins("li", vec![r(17), i(10)]),
            ins("beqz", vec![r(10), l("x")]),
            ins("li", vec![r(17), i(5)]),
            label("x"),
            ins("ecall", vec![]),
            ins("li", vec![r(17), i(10)]),
            ins("ecall", vec![]),
        ];
        assert_eq!(definite_exits(&q, &BTreeSet::new()).into_iter().collect::<Vec<_>>(), vec![7]);
    }
}
