//! C09 — every reported location designates exactly the text it is about.
//!
//! Oracles: (A) a reference tokenizer for token boundaries, (B) the
//! renderer's source map for statements and operands, (C) position
//! arithmetic (line = newlines before the raw offset, column = distance to
//! the previous newline) recomputed from the raw text.

use std::collections::{BTreeMap, BTreeSet};

use serde::{Deserialize, Serialize};
use serde_json::{json, Value};

use crate::adapter::{self, Files, Rng};
use crate::choice::Choices;
use crate::gen::{self, syn};
use crate::model::*;
use crate::reflex::{self, RTok};
use crate::runner::{Ctx, Prop, Tier, Violation};

#[derive(Clone, Debug, Serialize, Deserialize)]
pub struct Case {
    pub files: Files,
    /// per file: known spans (start, end exclusive, kind) from the source map
    pub spans: Vec<Vec<(usize, usize, String)>>,
    pub crlf: bool,
}

pub struct C09;

fn spans_of(rd: &Rendered, lines: &[Line]) -> Vec<(usize, usize, String)> {
    let mut v = vec![];
    for (ls, line) in rd.map.iter().zip(lines.iter()) {
        match line {
            Line::Ins(_) => {
                v.push((ls.stmt.0, ls.stmt.1, "stmt".to_string()));
                v.push((ls.head.0, ls.head.1, "head".to_string()));
                for o in &ls.ops {
                    v.push((o.whole.0, o.whole.1, "op".to_string()));
                    if let Some(r) = o.reg {
                        v.push((r.0, r.1, "reg".to_string()));
                    }
                    if let Some(r) = o.imm {
                        v.push((r.0, r.1, "imm".to_string()));
                    }
                }
            }
            Line::Label(_) => v.push((ls.stmt.0, ls.stmt.1, "label".to_string())),
            Line::Dir(..) => {
                v.push((ls.stmt.0, ls.stmt.1, "dirstmt".to_string()));
                v.push((ls.head.0, ls.head.1, "head".to_string()));
                for o in &ls.ops {
                    v.push((o.whole.0, o.whole.1, "op".to_string()));
                }
            }
            _ => {}
        }
    }
    v
}

/// CRLF conversion keeps the span table valid by shifting offsets.
fn to_crlf(text: &str, spans: &mut Vec<(usize, usize, String)>) -> String {
    let chars: Vec<char> = text.chars().collect();
    // shift[i] = number of '\n' strictly before offset i
    let mut shift = vec![0usize; chars.len() + 1];
    let mut n = 0;
    for (i, c) in chars.iter().enumerate() {
        shift[i] = n;
        if *c == '\n' {
            n += 1;
        }
    }
    shift[chars.len()] = n;
    for s in spans.iter_mut() {
        s.0 += shift[s.0];
        s.1 += shift[s.1.min(chars.len())];
    }
    text.replace('\n', "\r\n")
}

/// Remove the blanks in front of the first statement of a file (the statement then starts at offset 0).
fn strip_leading_blanks(text: &str, spans: &mut Vec<(usize, usize, String)>) -> String {
    let k = text.chars().take_while(|c| *c == ' ' || *c == '\t').count();
    if k == 0 || spans.iter().any(|s| s.0 < k) {
        return text.to_string();
    }
    for s in spans.iter_mut() {
        s.0 -= k;
        s.1 -= k;
    }
    text.chars().skip(k).collect()
}

struct FileCtx {
    ti: TextIndex,
    rtoks: Vec<RTok>,
    starts: BTreeMap<usize, usize>, // token start -> index
    ends: BTreeSet<usize>,          // token ends (exclusive)
    spans: Vec<(usize, usize, String)>,
    has_bad_literal: bool,
}

fn check_pos(
    what: &str,
    entity: &str,
    r: &Rng,
    f: &FileCtx,
    out: &mut Vec<Violation>,
    text_hint: &str,
) -> bool {
    let len = f.ti.len();
    let mk = |field: &str, msg: String| {
        Violation::new(format!("{entity} {what}: {msg} (range {:?}) near {:?}", r, text_hint))
            .with("entity", entity)
            .with("field", field)
    };
    if r.start.raw > len || r.end.raw > len || r.start.raw > r.end.raw {
        out.push(mk(
            "raw",
            format!("raw offsets out of order or outside the file (len {len})"),
        ));
        return false;
    }
    let mut ok = true;
    for (p, which) in [(&r.start, "start"), (&r.end, "end")] {
        let (l, c) = f.ti.line_col(p.raw.min(len));
        if p.line != l {
            out.push(mk(
                "line",
                format!("{which} line {} but raw offset {} is on line {l}", p.line, p.raw),
            ));
            ok = false;
        } else if p.col != c {
            out.push(mk(
                "column",
                format!("{which} column {} but raw offset {} is at column {c}", p.col, p.raw),
            ));
            ok = false;
        }
    }
    // single line: no newline strictly inside [start, end)
    if f.ti.chars[r.start.raw..r.end.raw.min(len)].contains(&'\n') {
        out.push(mk("multiline", "range spans more than one line".to_string()));
        ok = false;
    }
    ok
}

impl C09 {
    fn check_case(case: &Case, ctx: &mut Ctx) -> Vec<Violation> {
        let mut out: Vec<Violation> = vec![];
        let mut fctx: BTreeMap<String, FileCtx> = BTreeMap::new();
        for (k, (name, text)) in case.files.iter().enumerate() {
            let ti = TextIndex::new(text);
            let rtoks = reflex::tokenize(&ti.chars);
            let starts = rtoks.iter().enumerate().map(|(i, t)| (t.start, i)).collect();
            let ends = rtoks.iter().map(|t| t.end).collect();
            let has_bad_literal = rtoks.iter().any(|t| t.kind == "badliteral");
            fctx.insert(
                name.clone(),
                FileCtx {
                    ti,
                    rtoks,
                    starts,
                    ends,
                    spans: case.spans.get(k).cloned().unwrap_or_default(),
                    has_bad_literal,
                },
            );
        }
        // features / non-triviality
        let base = &fctx[&case.files[0].0];
        let first_line_tok = base.rtoks.iter().any(|t| t.line == 0 && t.col > 0 && t.kind != "newline");
        let leading_blank = base.ti.chars.first() == Some(&'\n') || base.ti.chars.first() == Some(&'\r');
        let rparen_stmt = fctx.values().any(|f| {
            f.spans
                .iter()
                .any(|s| s.2 == "stmt" && s.1 > 0 && f.ti.chars.get(s.1 - 1) == Some(&')'))
        });
        if first_line_tok {
            ctx.label("first-line-token-after-col0");
        }
        if leading_blank {
            ctx.label("leading-blank-line");
        }
        if rparen_stmt {
            ctx.label("rparen-terminated-instruction");
        }
        if case.files.len() > 1 {
            ctx.label("included-files");
        }
        if case.crlf {
            ctx.label("crlf");
        }

        // (A) lexer tokens against the reference tokenizer
        for (name, text) in &case.files {
            let f = &fctx[name];
            let toks = match adapter::lex(text) {
                Ok(t) => t,
                Err(p) => {
                    ctx.skip("c06_panic_in_lexer");
                    let _ = p;
                    continue;
                }
            };
            if f.has_bad_literal {
                ctx.skip("file_with_malformed_literal_tokens_not_compared");
            }
            let mut seen_starts = BTreeSet::new();
            for t in &toks {
                let hint = f.ti.slice(t.range.start.raw.min(f.ti.len()), (t.range.end.raw + 1).min(f.ti.len()));
                if !check_pos("token", &format!("token:{}", t.kind), &t.range, f, &mut out, &hint) {
                    continue;
                }
                ctx.fact("tokens_checked", 1);
                if t.is_err || f.has_bad_literal {
                    continue;
                }
                seen_starts.insert(t.range.start.raw);
                match f.starts.get(&t.range.start.raw) {
                    None => out.push(
                        Violation::new(format!(
                            "token {:?} ({}) starts at raw {} where the reference tokenizer has no token start; file {name}: {:?}",
                            t.text, t.kind, t.range.start.raw, f.ti.line_text(f.ti.line_col(t.range.start.raw).0)
                        ))
                        .with("entity", format!("token:{}", t.kind))
                        .with("field", "start"),
                    ),
                    Some(i) => {
                        let rt = &f.rtoks[*i];
                        if rt.end != t.range.end.raw + 1 {
                            out.push(
                                Violation::new(format!(
                                    "token {:?} ({}) covers raw {}..={} but its text is {:?} (raw {}..{}); file {name}",
                                    t.text,
                                    t.kind,
                                    t.range.start.raw,
                                    t.range.end.raw,
                                    f.ti.slice(rt.start, rt.end),
                                    rt.start,
                                    rt.end
                                ))
                                .with("entity", format!("token:{}", t.kind))
                                .with("field", "end"),
                            );
                        }
                        if rt.kind != t.kind {
                            out.push(
                                Violation::new(format!(
                                    "token at raw {} lexed as {} but the documented classes make it {}: {:?}",
                                    rt.start, t.kind, rt.kind, f.ti.slice(rt.start, rt.end)
                                ))
                                .with("entity", format!("token:{}", t.kind))
                                .with("field", "kind"),
                            );
                        }
                    }
                }
            }
            if !f.has_bad_literal {
                // every reference token (known classes) must have been produced
                for rt in &f.rtoks {
                    if rt.kind != "unknown" && !seen_starts.contains(&rt.start) {
                        out.push(
                            Violation::new(format!(
                                "no lexer token for {:?} ({}) at line {} col {} of {name}",
                                f.ti.slice(rt.start, rt.end),
                                rt.kind,
                                rt.line,
                                rt.col
                            ))
                            .with("entity", format!("token:{}", rt.kind))
                            .with("field", "missing"),
                        );
                        break;
                    }
                }
            }
        }

        // (B) nodes
        let parsed = match adapter::parse(&case.files) {
            Ok(p) => p,
            Err(_) => {
                ctx.skip("c06_panic_in_parser");
                return out;
            }
        };
        let in_span = |f: &FileCtx, s: usize, e: usize| f.spans.iter().any(|x| x.0 == s && x.1 == e);
        for n in &parsed.nodes {
            if n.kind == "ProgramEntry" {
                continue;
            }
            let Some(f) = fctx.get(&n.file) else {
                out.push(
                    Violation::new(format!("node {:?} attributed to unknown file {:?}", n.shown, n.file))
                        .with("entity", "node")
                        .with("field", "file"),
                );
                continue;
            };
            // a data directive may continue over following lines: only its start is checked
            let node_range = if n.kind == "Directive" {
                Rng {
                    start: n.range.start.clone(),
                    end: n.range.start.clone(),
                }
            } else {
                n.range.clone()
            };
            if !check_pos("node", "node", &node_range, f, &mut out, &n.shown) {
                continue;
            }
            ctx.fact("nodes_checked", 1);
            let (s, e) = (n.range.start.raw, n.range.end.raw + 1);
            let stmt = f
                .spans
                .iter()
                .find(|x| x.0 == s && (x.2 == "stmt" || x.2 == "label" || x.2 == "dirstmt"));
            match stmt {
                Some(x) => {
                    // data directives may legitimately continue over following lines; only
                    // instructions and labels are compared exactly
                    if x.2 != "dirstmt" && x.1 != e {
                        out.push(
                            Violation::new(format!(
                                "node {:?} covers {:?} but the statement is {:?} (file {}, line {})",
                                n.shown,
                                f.ti.slice(s, e),
                                f.ti.slice(x.0, x.1),
                                n.file,
                                n.range.start.line
                            ))
                            .with("entity", "node")
                            .with("field", "end")
                            .with("ends_with", f.ti.slice(x.1 - 1, x.1)),
                        );
                    }
                }
                None => {
                    // a node that begins inside a well-formed statement designates only a part of it
                    if let Some(x) = f.spans.iter().find(|x| (x.2 == "stmt" || x.2 == "label") && x.0 < s && e <= x.1) {
                        out.push(
                            Violation::new(format!(
                                "node {:?} covers {:?}, a part of the statement {:?} (file {}, line {})",
                                n.shown,
                                f.ti.slice(s, e),
                                f.ti.slice(x.0, x.1),
                                n.file,
                                n.range.start.line
                            ))
                            .with("entity", "node")
                            .with("field", "start"),
                        );
                    }
                    if !f.has_bad_literal && (!f.starts.contains_key(&s) || !f.ends.contains(&e)) {
                        out.push(
                            Violation::new(format!(
                                "node {:?} range {:?} does not start/end on token boundaries",
                                n.shown,
                                f.ti.slice(s, e)
                            ))
                            .with("entity", "node")
                            .with("field", "boundary"),
                        );
                    }
                }
            }
            if let Some(d) = &n.detail {
                for (nm, r) in [
                    ("rd", &d.rd_range),
                    ("rs1", &d.rs1_range),
                    ("rs2", &d.rs2_range),
                    ("imm", &d.imm_range),
                    ("label", &d.label_range),
                ] {
                    if let Some(r) = r {
                        if !check_pos("operand", &format!("operand:{nm}"), r, f, &mut out, &n.shown) {
                            continue;
                        }
                        ctx.fact("operand_ranges_checked", 1);
                        let (s, e) = (r.start.raw, r.end.raw + 1);
                        // the text an operand is located at, if it is a register name, names the register the operand holds
                        let held = match nm {
                            "rd" => d.rd,
                            "rs1" => d.rs1,
                            "rs2" => d.rs2,
                            _ => None,
                        };
                        if let (Some(h), Some(written)) = (held, reg_from_name(&f.ti.slice(s, e))) {
                            if h != written {
                                out.push(
                                    Violation::new(format!(
                                        "operand {nm} of {:?} holds {} but is located at the text {:?}",
                                        n.shown,
                                        ABI[h as usize],
                                        f.ti.slice(s, e)
                                    ))
                                    .with("entity", format!("operand:{nm}"))
                                    .with("field", "register-text"),
                                );
                            }
                        }
                        if stmt.is_some() && !in_span(f, s, e) {
                            out.push(
                                Violation::new(format!(
                                    "operand {nm} of {:?} designates {:?}, which is not an operand or the mnemonic of that statement",
                                    n.shown,
                                    f.ti.slice(s, e)
                                ))
                                .with("entity", format!("operand:{nm}"))
                                .with("field", "span"),
                            );
                        }
                    }
                }
            }
        }
        // parse errors
        for e in &parsed.errors {
            let Some(f) = fctx.get(&e.file) else {
                out.push(
                    Violation::new(format!("parse error {:?} attributed to unknown file {:?}", e.title, e.file))
                        .with("entity", "parse-error")
                        .with("field", "file"),
                );
                continue;
            };
            if !check_pos("parse error", "parse-error", &e.range, f, &mut out, &e.title) {
                continue;
            }
            ctx.fact("parse_errors_checked", 1);
            let (s, en) = (e.range.start.raw, e.range.end.raw + 1);
            // an error about the end of the file is located at the end-of-file position
            if s == f.ti.len() && e.range.end.raw == s {
                ctx.fact("errors_at_end_of_file_position", 1);
                continue;
            }
            if !f.has_bad_literal && e.code != "parse:invalid-string" && (!f.starts.contains_key(&s) || !f.ends.contains(&en)) {
                out.push(
                    Violation::new(format!(
                        "parse error {:?} designates {:?} which is not a whole token (file {}, line {})",
                        e.title,
                        f.ti.slice(s, en),
                        e.file,
                        e.range.start.line
                    ))
                    .with("entity", "parse-error")
                    .with("field", "boundary"),
                );
            }
        }

        // (C) diagnostics of the full pipeline
        let lint = match adapter::lint(&case.files) {
            Ok(l) => l,
            Err(_) => {
                ctx.skip("c06_panic_in_pipeline");
                return out;
            }
        };
        let mut diag_in_included = false;
        for d in lint.diags.iter().filter(|d| !d.code.starts_with("parse:")) {
            if d.file.is_empty() {
                ctx.skip("diagnostic_without_file_left_to_C16");
                continue;
            }
            let Some(f) = fctx.get(&d.file) else { continue };
            if d.file != case.files[0].0 {
                diag_in_included = true;
            }
            if !check_pos("diagnostic", &format!("diag:{}", d.code), &d.range, f, &mut out, &d.title) {
                continue;
            }
            ctx.fact("diagnostics_checked", 1);
            let (s, e) = (d.range.start.raw, d.range.end.raw + 1);
            let any_start = f.spans.iter().any(|x| x.0 == s);
            if any_start {
                if !in_span(f, s, e) {
                    let cands: Vec<String> = f
                        .spans
                        .iter()
                        .filter(|x| x.0 == s)
                        .map(|x| format!("{}:{:?}", x.2, f.ti.slice(x.0, x.1)))
                        .collect();
                    out.push(
                        Violation::new(format!(
                            "diagnostic {} ({:?}) designates {:?}; the text starting there is one of {:?} (file {}, line {})",
                            d.code,
                            d.title,
                            f.ti.slice(s, e),
                            cands,
                            d.file,
                            d.range.start.line
                        ))
                        .with("entity", format!("diag:{}", d.code))
                        .with("field", "end"),
                    );
                }
            } else if !f.has_bad_literal && (!f.starts.contains_key(&s) || !f.ends.contains(&e)) {
                out.push(
                    Violation::new(format!(
                        "diagnostic {} designates {:?}, which does not start/end on token boundaries",
                        d.code,
                        f.ti.slice(s, e)
                    ))
                    .with("entity", format!("diag:{}", d.code))
                    .with("field", "boundary"),
                );
            }
        }
        if diag_in_included {
            ctx.label("diagnostic-in-included-file");
        }
        ctx.nontrivial = first_line_tok || leading_blank || rparen_stmt || diag_in_included;
        out.truncate(4);
        out
    }
}

impl Prop for C09 {
    type Case = Case;

    fn gen(ch: &mut Choices, tier: Tier) -> Option<Case> {
        let big = tier == Tier::Thorough;
        let o = syn::SynOpts {
            max_funcs: if big { 4 } else { 2 },
            max_body: if big { 14 } else { 7 },
            data: true,
            odd_forms: true,
        };
        let (mut lines, _) = syn::program(ch, &o);
        if ch.chance(1, 3) {
            gen::inject_defects(&mut lines, ch, 2);
        }
        // a program that starts with a jump over its data or helpers (one-letter mnemonic first)
        if ch.chance(1, 12) {
            if let Some(l) = lines.iter().find_map(|l| if let Line::Label(n) = l { Some(n.clone()) } else { None }) {
                lines.insert(0, Line::Ins(Ins::new("j", vec![Opd::L(l)])));
            }
        }
        let files = if ch.chance(1, 4) {
            gen::split_include(&lines, ch, 3)
        } else {
            vec![("main.s".to_string(), lines)]
        };
        let crlf = ch.chance(1, 8);
        let mut opts = StyleOpts::all();
        if ch.chance(1, 3) {
            opts = StyleOpts::none();
            opts.leading_blank = true;
            opts.indent = true;
        }
        let mut out_files = vec![];
        let mut spans = vec![];
        for (name, ls) in &files {
            let rd = render(ls, ch, &opts);
            let mut sp = spans_of(&rd, ls);
            let text = if ch.chance(1, 4) { strip_leading_blanks(&rd.text, &mut sp) } else { rd.text };
            let text = if crlf { to_crlf(&text, &mut sp) } else { text };
            out_files.push((name.clone(), text));
            spans.push(sp);
        }
        Some(Case {
            files: out_files,
            spans,
            crlf,
        })
    }

    fn check(case: &Case, ctx: &mut Ctx) -> Vec<Violation> {
        C09::check_case(case, ctx)
    }

    fn show(case: &Case) -> Value {
        json!({"files": case.files, "crlf": case.crlf})
    }
}
