//! C19 — the CFG debug dump is a faithful, reloadable serialization.

use serde::{Deserialize, Serialize};
use serde_json::{json, Value};

use crate::adapter::{self, single, AnalyzeOpts, Loc, Mutation, Val, WrapNode};
use crate::choice::Choices;
use crate::gen::abi::{self, AbiOpts};
use crate::gen::wild::{self, WildOpts};
use crate::gen::syn;
use crate::model::*;
use crate::runner::{Ctx, Prop, Tier, Violation};

#[derive(Clone, Debug, Serialize, Deserialize)]
pub struct Case {
    pub lines: Vec<Line>,
    /// two alternative single-fact mutations applied to the dumped result (twins)
    pub m1: Vec<Mutation>,
    pub m2: Vec<Mutation>,
    pub source: String,
}

pub struct C19;

const EXTREME: [i32; 10] = [0, 1, -1, 4, -4, 2047, -2048, i32::MAX, i32::MIN, i32::MIN + 1];

pub fn gen_val(ch: &mut Choices) -> Val {
    let o = *ch.pick(&EXTREME);
    let r = ch.below(32) as u8;
    match ch.below(9) {
        0 => Val::Const(o),
        1 => Val::Addr(ch.pick_str(&["main", "arr0", "L_1", "x"]).to_string()),
        2 => Val::Mem(ch.pick_str(&["main", "arr0", "L_1"]).to_string(), o),
        3 => Val::RegS(r, o),
        4 => Val::OrigS(r, o),
        5 => Val::MemAtReg(r, o),
        6 => Val::MemAtOrig(r, o),
        7 => Val::Csr(*ch.pick(&[0u32, 5, 64, 65, 0xC00, 4095, 7])),
        _ => Val::MemAtCsr(*ch.pick(&[0u32, 5, 64, 0xC00]), o),
    }
}

pub fn gen_loc(ch: &mut Choices) -> Loc {
    match ch.below(3) {
        0 => Loc::Stack(*ch.pick(&EXTREME)),
        1 => Loc::Csr(*ch.pick(&[0u32, 5, 64, 4095])),
        _ => Loc::CsrOff(*ch.pick(&[0u32, 5, 64]), *ch.pick(&EXTREME)),
    }
}

fn val_kind(v: &Val) -> &'static str {
    match v {
        Val::Const(_) => "constant",
        Val::Addr(_) => "address",
        Val::Mem(..) => "memory",
        Val::RegS(..) => "register+scalar",
        Val::OrigS(..) => "original+scalar",
        Val::MemAtReg(..) => "memory-at-register",
        Val::MemAtOrig(..) => "memory-at-original",
        Val::Csr(_) => "csr-value",
        Val::MemAtCsr(..) => "memory-at-csr",
    }
}

fn gen_mutation(ch: &mut Choices) -> Mutation {
    let node = ch.below(64);
    match ch.below(9) {
        0 => Mutation::ToggleNext { node, to: ch.below(64) },
        1 => Mutation::TogglePrev { node, to: ch.below(64) },
        2 => Mutation::ToggleLive { node, set: ch.below(3) as u8, reg: ch.below(31) as u8 },
        3 | 4 => Mutation::SetReg { node, out: ch.chance(1, 2), reg: 1 + ch.below(31) as u8, val: gen_val(ch) },
        5 => Mutation::SetMem { node, out: ch.chance(1, 2), loc: gen_loc(ch), val: gen_val(ch) },
        6 => Mutation::SetFuncEntry { node, to: ch.below(64) },
        7 => Mutation::SetFuncExit { node, to: ch.below(64) },
        _ => Mutation::ToggleLabel { node, label: ch.pick_str(&["extra", "main", "L9"]).to_string() },
    }
}

/// A twin of a value-setting mutation: same place, same payload, different variant.
fn twin_of(m: &Mutation, ch: &mut Choices) -> Option<Mutation> {
    let swap = |v: &Val, ch: &mut Choices| -> Val {
        match v {
            Val::Const(c) => Val::Csr(*c as u32),
            Val::Csr(c) => Val::Const(*c as i32),
            Val::RegS(r, o) => {
                if ch.chance(1, 2) {
                    Val::OrigS(*r, *o)
                } else {
                    Val::MemAtReg(*r, *o)
                }
            }
            Val::OrigS(r, o) => {
                if ch.chance(1, 2) {
                    Val::RegS(*r, *o)
                } else {
                    Val::MemAtOrig(*r, *o)
                }
            }
            Val::MemAtReg(r, o) => Val::MemAtOrig(*r, *o),
            Val::MemAtOrig(r, o) => Val::MemAtReg(*r, *o),
            Val::MemAtCsr(c, o) => Val::Mem(format!("L{c}"), *o),
            Val::Mem(l, o) => Val::Addr(format!("{l}{o}")),
            Val::Addr(l) => Val::Mem(l.clone(), 0),
        }
    };
    match m {
        Mutation::SetReg { node, out, reg, val } => Some(Mutation::SetReg { node: *node, out: *out, reg: *reg, val: swap(val, ch) }),
        Mutation::SetMem { node, out, loc, val } => {
            if ch.chance(1, 2) {
                Some(Mutation::SetMem { node: *node, out: *out, loc: loc.clone(), val: swap(val, ch) })
            } else {
                let l2 = match loc {
                    Loc::Stack(o) => Loc::Stack(o.wrapping_neg()),
                    Loc::Csr(c) => Loc::CsrOff(*c, 0),
                    Loc::CsrOff(c, o) => Loc::CsrOff(*c, o.wrapping_neg()),
                };
                Some(Mutation::SetMem { node: *node, out: *out, loc: l2, val: val.clone() })
            }
        }
        _ => None,
    }
}

fn first_diff(a: &[WrapNode], b: &[WrapNode]) -> Option<String> {
    if a.len() != b.len() {
        return Some(format!("{} vs {} nodes", a.len(), b.len()));
    }
    for (k, (x, y)) in a.iter().zip(b.iter()).enumerate() {
        if x != y {
            macro_rules! f {
                ($name:ident) => {
                    if x.$name != y.$name {
                        return Some(format!("node {k} ({}) field {}: {:?} vs {:?}", x.shown, stringify!($name), x.$name, y.$name));
                    }
                };
            }
            f!(shown);
            f!(labels);
            f!(func_entry);
            f!(func_exit);
            f!(func_pairs);
            f!(nexts);
            f!(prevs);
            f!(reg_in);
            f!(reg_out);
            f!(mem_in);
            f!(mem_out);
            f!(live_in);
            f!(live_out);
            f!(u_def);
            return Some(format!("node {k} differs"));
        }
    }
    None
}

fn diff_field(d: &str) -> String {
    d.split(" field ").nth(1).and_then(|s| s.split(':').next()).unwrap_or("structure").to_string()
}

impl C19 {
    fn check_case(case: &Case, ctx: &mut Ctx) -> Vec<Violation> {
        let mut out = vec![];
        ctx.label(format!("source:{}", case.source));
        let text = render_plain(&case.lines).text;
        let a = match adapter::analyze(&single(&text), &AnalyzeOpts { extra: vec![], want_yaml: true, sweep_limit: Some(100_000) }) {
            Ok(a) => a,
            Err(p) => {
                ctx.skip(&format!("c06_panic:{}", p.location()));
                return out;
            }
        };
        let (Some(cfg), Some(yaml)) = (a.cfg, a.yaml) else {
            ctx.skip("no_cfg");
            return out;
        };
        for n in &cfg.nodes {
            for v in n.reg_out.values().chain(n.mem_out.values()) {
                ctx.label(format!("kind-in-real-dump:{}", val_kind(v)));
            }
        }
        let mk = |clause: &str, msg: String| Violation::new(format!("{msg}\nprogram:\n{text}")).with("clause", clause);
        // (1) the dump of a real analysis reloads to the structure that was written
        let live = adapter::wrap_view_of_cfg(&cfg);
        match adapter::yaml_load_view(&yaml) {
            Err(p) => {
                out.push(mk("load-panic", format!("loading the emitted dump panicked: {}", p.message)));
                return out;
            }
            Ok(Err(e)) => {
                out.push(mk("load-error", format!("the emitted dump cannot be loaded: {e}")));
                return out;
            }
            Ok(Ok(loaded)) => {
                ctx.fact("real_dumps_roundtripped", 1);
                if let Some(d) = first_diff(&live, &loaded) {
                    out.push(mk("roundtrip", format!("reloading the --yaml dump of the analysis gives a different structure: {d}")).with("field", diff_field(&d)));
                    return out;
                }
            }
        }
        match adapter::yaml_reload(&yaml) {
            Ok(Ok(again)) if again != yaml => out.push(mk("idempotence", "dump(load(dump(x))) differs from dump(x)".into())),
            Ok(Ok(_)) => {}
            Ok(Err(e)) => out.push(mk("load-error", e)),
            Err(p) => out.push(mk("load-panic", p.message)),
        }
        // (2) generated facts: mutate one fact, dump, reload, compare; twins must dump differently
        let mut results = vec![];
        for (which, m) in [("m1", &case.m1), ("m2", &case.m2)] {
            if m.is_empty() {
                continue;
            }
            for x in m.iter() {
                match x {
                    Mutation::SetReg { val, .. } | Mutation::SetMem { val, .. } => ctx.label(format!("generated-kind:{}", val_kind(val))),
                    _ => {}
                }
            }
            match adapter::yaml_mutate(&yaml, m) {
                Err(p) => {
                    out.push(mk("dump-panic", format!("dumping a structure with {:?} panicked: {}", m, p.message)).with("mutation", format!("{:?}", m[0]).split(' ').next().unwrap_or("").to_string()));
                    return out;
                }
                Ok(Err(e)) => {
                    ctx.skip(&format!("mutation_not_applicable:{}", e.chars().take(30).collect::<String>()));
                    return out;
                }
                Ok(Ok((dump, view))) => {
                    ctx.fact("generated_structures_dumped", 1);
                    match adapter::yaml_load_view(&dump) {
                        Err(p) => {
                            out.push(mk("load-panic", format!("loading the dump of a structure with {:?} panicked: {}", m, p.message)));
                            return out;
                        }
                        Ok(Err(e)) => {
                            out.push(mk("load-error", format!("the dump of a structure with {:?} cannot be loaded: {e}", m)).with("mutation", format!("{:?}", m[0]).split(' ').next().unwrap_or("").to_string()));
                            return out;
                        }
                        Ok(Ok(loaded)) => {
                            if let Some(d) = first_diff(&view, &loaded) {
                                out.push(
                                    mk("roundtrip", format!("a structure with {:?} does not survive dump + load: {d}", m))
                                        .with("field", diff_field(&d))
                                        .with("mutation", format!("{:?}", m[0]).split(' ').next().unwrap_or("").to_string()),
                                );
                                return out;
                            }
                        }
                    }
                    results.push((which, dump, view));
                }
            }
        }
        // injectivity: structures that differ must dump differently (original vs m1, original vs m2, m1 vs m2)
        let base = match adapter::yaml_mutate(&yaml, &[]) {
            Ok(Ok(b)) => b,
            _ => return out,
        };
        let mut all: Vec<(&str, &String, &Vec<WrapNode>)> = vec![("original", &base.0, &base.1)];
        for (w, d, v) in &results {
            all.push((w, d, v));
        }
        for i in 0..all.len() {
            for j in i + 1..all.len() {
                ctx.fact("structure_pairs_compared", 1);
                if let Some(d) = first_diff(all[i].2, all[j].2) {
                    ctx.nontrivial = true;
                    if all[i].1 == all[j].1 {
                        out.push(
                            mk(
                                "injective",
                                format!("two analysis results that differ ({d}) produce the same dump; mutations: m1 = {:?}, m2 = {:?}", case.m1, case.m2),
                            )
                            .with("field", diff_field(&d)),
                        );
                        return out;
                    }
                }
            }
        }
        out
    }
}

impl Prop for C19 {
    type Case = Case;

    fn gen(ch: &mut Choices, tier: Tier) -> Option<Case> {
        let big = tier == Tier::Thorough;
        let (lines, source) = match ch.weighted(&[3, 3, 3]) {
            0 => (abi::program(ch, &AbiOpts::all(2, if big { 10 } else { 6 })).0, "abi"),
            1 => (
                wild::program(
                    ch,
                    &WildOpts {
                        max_funcs: 2,
                        max_blocks: 3,
                        max_body: 3,
                        chaos: true,
                        c03_domain: false,
                        faults: false,
                        data: true,
                    },
                )
                .0,
                "wild",
            ),
            _ => (
                // syntactic programs contain CSR code
                syn::program(
                    ch,
                    &syn::SynOpts {
                        max_funcs: 2,
                        max_body: 8,
                        data: true,
                        odd_forms: true,
                    },
                )
                .0,
                "syntactic",
            ),
        };
        let m1 = vec![gen_mutation(ch)];
        let m2 = match twin_of(&m1[0], ch) {
            Some(t) if ch.chance(2, 3) => vec![t],
            _ => vec![gen_mutation(ch)],
        };
        Some(Case {
            lines,
            m1,
            m2,
            source: source.to_string(),
        })
    }

    fn check(case: &Case, ctx: &mut Ctx) -> Vec<Violation> {
        C19::check_case(case, ctx)
    }

    fn show(case: &Case) -> Value {
        json!({"program": render_plain(&case.lines).text, "m1": case.m1, "m2": case.m2})
    }
}
