//! C01 — claimed register and stack values are true on every execution.

use std::collections::BTreeMap;

use serde::{Deserialize, Serialize};
use serde_json::{json, Value};

use crate::adapter::{self, single, CfgView, Loc, NodeView, Val};
use crate::choice::Choices;
use crate::gen::abi::{self, AbiInfo, AbiOpts};
use crate::link::{link, Link};
use crate::machine::{flatten, Flat, Halt, Inputs, Kind, Machine};
use crate::model::*;
use crate::runner::{Ctx, Prop, Tier, Violation};

#[derive(Clone, Debug, Serialize, Deserialize)]
pub struct Case {
    pub lines: Vec<Line>,
    pub inputs: Vec<Inputs>,
    pub info: AbiInfo,
}

pub struct C01;

struct Claim<'a> {
    whr: String, // "reg" | "mem"
    target: String,
    val: &'a Val,
}

/// Is the claim true in this machine state? `None` = not a claim in the sense of the statement.
fn holds(m: &Machine, flat: &Flat, actual: u32, v: &Val) -> Option<(bool, String)> {
    match v {
        Val::Const(c) => Some((actual == *c as u32, format!("the constant {c}"))),
        Val::Addr(l) => {
            let a = flat.labels.get(l)?;
            Some((actual == *a, format!("the address of {l} ({a:#x})")))
        }
        Val::OrigS(r, k) => {
            let base = m.frame_regs()[*r as usize];
            let want = base.wrapping_add(*k as u32);
            Some((
                actual == want,
                format!("{} at function entry ({base:#x}) + {k} = {want:#x}", ABI[*r as usize]),
            ))
        }
        _ => None,
    }
}

fn claims_of<'a>(regs: &'a BTreeMap<u8, Val>, mem: &'a BTreeMap<Loc, Val>) -> Vec<(Claim<'a>, Option<u8>, Option<i32>)> {
    let mut v = vec![];
    for (r, val) in regs {
        v.push((
            Claim {
                whr: "reg".into(),
                target: ABI[*r as usize].to_string(),
                val,
            },
            Some(*r),
            None,
        ));
    }
    for (l, val) in mem {
        if let Loc::Stack(o) = l {
            v.push((
                Claim {
                    whr: "mem".into(),
                    target: format!("stack slot entry_sp{o:+}"),
                    val,
                },
                None,
                Some(*o),
            ));
        }
    }
    v
}

fn val_kind(v: &Val) -> &'static str {
    match v {
        Val::Const(_) => "constant",
        Val::Addr(_) => "address",
        Val::OrigS(..) => "original-register",
        _ => "other",
    }
}

#[allow(clippy::too_many_arguments)]
fn check_state(
    m: &Machine,
    flat: &Flat,
    node: &NodeView,
    point: &str,
    regs: &BTreeMap<u8, Val>,
    mem: &BTreeMap<Loc, Val>,
    ctx: &mut Ctx,
    context: &str,
    text: &str,
    trace_tail: &[String],
) -> Option<Violation> {
    for (c, r, o) in claims_of(regs, mem) {
        let actual = match (r, o) {
            (Some(r), _) => m.regs[r as usize],
            (_, Some(o)) => {
                let a = m.frame_regs()[SP as usize].wrapping_add(o as u32);
                if a % 4 != 0 {
                    continue;
                }
                m.load(a, 4)
            }
            _ => continue,
        };
        let Some((ok, desc)) = holds(m, flat, actual, c.val) else { continue };
        let seed = matches!((r, c.val), (Some(r), Val::OrigS(q, 0)) if *q == r);
        if seed {
            ctx.fact("seed_claims_checked", 1);
        } else {
            ctx.fact(&format!("derived_claims_checked:{}:{}", c.whr, val_kind(c.val)), 1);
        }
        if !ok {
            return Some(
                Violation::new(format!(
                    "false claim {point} node #{} {:?} (source line {}): {} is claimed to hold {desc}, the machine has {actual:#x}\nlast steps: {}\n{text}",
                    node.idx,
                    node.shown,
                    node.range.start.line + 1,
                    c.target,
                    trace_tail.join(" ; ")
                ))
                .with("where", c.whr.clone())
                .with("value_kind", val_kind(c.val))
                .with("point", point)
                .with("context", context),
            );
        }
    }
    None
}

/// What happened just before the claim became false (signature context).
fn classify_context(prev_kinds: &[String]) -> String {
    let recent: Vec<&str> = prev_kinds.iter().rev().take(6).map(|s| s.as_str()).collect();
    for k in ["call", "ecall", "subword", "redzone"] {
        if recent.iter().any(|x| x.contains(k)) {
            return k.to_string();
        }
    }
    "plain".into()
}

fn run_trace(
    case: &Case,
    flat: &Flat,
    cfg: &CfgView,
    lk: &Link,
    inp: &Inputs,
    ctx: &mut Ctx,
    text: &str,
) -> Option<Violation> {
    let mut m = Machine::new(flat, inp, 1500);
    let mut tail: Vec<String> = vec![];
    let mut kinds: Vec<String> = vec![];
    // entry of main: the program-entry node's out claims
    if let Some(v) = check_state(&m, flat, &cfg.nodes[0], "after", &cfg.nodes[0].reg_out, &cfg.nodes[0].mem_out, ctx, "entry", text, &tail) {
        return Some(v);
    }
    loop {
        if m.halted.is_some() {
            break;
        }
        let t = m.pc;
        if t >= flat.text.len() {
            break;
        }
        let line = flat.text[t].line;
        let Some(nodes) = lk.line_nodes.get(&line) else { break };
        let first = &cfg.nodes[nodes[0]];
        let last = &cfg.nodes[*nodes.last().unwrap()];
        let context = classify_context(&kinds);
        // claims before executing
        if let Some(v) = check_state(&m, flat, first, "before", &first.reg_in, &first.mem_in, ctx, &context, text, &tail) {
            return Some(v);
        }
        let depth_before = m.acts.len();
        let entry_frame_sp = m.frame_regs()[SP as usize];
        let Some(s) = m.step() else { break };
        let shown = render_plain(&[case.lines[line].clone()]).text.trim().to_string();
        tail.push(format!("L{} {}", line + 1, shown));
        if tail.len() > 8 {
            tail.remove(0);
        }
        let Line::Ins(insn) = &case.lines[line] else { break };
        let mut k = match s.kind {
            Kind::Call { .. } => "call".to_string(),
            Kind::Ecall { .. } => "ecall".to_string(),
            _ => "plain".to_string(),
        };
        if matches!(insn.mn.as_str(), "sb" | "sh" | "lb" | "lh" | "lbu" | "lhu") {
            k = "subword".into();
        }
        if let Some((a, _, _)) = s.mem_write {
            // domain: a function never writes at or above its entry stack pointer
            if a >= entry_frame_sp && a < 0x8000_0000 && a >= 0x7000_0000 {
                ctx.skip("trace_left_domain:write_at_or_above_entry_sp");
                break;
            }
            if matches!(insn.ops.get(1), Some(Opd::M(off, 2)) if *off < 0) {
                k = "redzone".into();
            }
        }
        kinds.push(k);
        match s.kind {
            Kind::Call { target } => {
                // arrival in the callee: the function-entry node's claims hold now
                if let Some(n0) = lk.first_node(flat, target) {
                    if let Some(e) = lk.entry_before.get(&n0) {
                        let en = &cfg.nodes[*e];
                        if let Some(v) = check_state(&m, flat, en, "after", &en.reg_out, &en.mem_out, ctx, "function-entry", text, &tail) {
                            return Some(v);
                        }
                    }
                }
                continue;
            }
            Kind::Ret => {
                if m.acts.len() < depth_before {
                    // callee returned: it must have respected the convention (domain check)
                    continue;
                }
                break; // return from main / unmatched return: end of the checked trace
            }
            _ => {}
        }
        if s.next.is_none() {
            break;
        }
        // arrival at a function entry by a jump, a branch or by falling into it: the function-entry
        // node's claims hold now, and "value at entry" is re-based to this moment
        if let Some(nt) = s.next {
            if let Some(n0) = lk.first_node(flat, nt) {
                if let Some(e) = lk.entry_before.get(&n0) {
                    m.rebase_activation();
                    let en = &cfg.nodes[*e];
                    if let Some(v) = check_state(&m, flat, en, "after", &en.reg_out, &en.mem_out, ctx, "function-entry-by-jump", text, &tail) {
                        return Some(v);
                    }
                    ctx.fact("function_entries_by_jump", 1);
                    continue;
                }
            }
        }
        // claims after executing (same activation)
        if let Some(v) = check_state(&m, flat, last, "after", &last.reg_out, &last.mem_out, ctx, &context, text, &tail) {
            return Some(v);
        }
    }
    if let Some(Halt::Trap(t)) = &m.halted {
        ctx.skip(&format!("trace_ended_by_trap:{}", t.split(' ').next().unwrap_or("")));
    }
    None
}

impl C01 {
    fn check_case(case: &Case, ctx: &mut Ctx) -> Vec<Violation> {
        let rd = render_plain(&case.lines);
        let text = &rd.text;
        let i = &case.info;
        for (on, name) in [
            (i.calls > 0, "calls"),
            (i.loops > 0, "loops"),
            (i.diamonds > 0, "diamonds"),
            (i.stack_stores > 0, "stack-stores"),
            (i.subword > 0, "subword-stack-access"),
            (i.redzone > 0, "red-zone"),
            (i.sp_adjusts > 0, "nested-sp-adjust"),
            (i.ecall_results > 0, "ecall-with-result"),
            (i.early_returns > 0, "early-return"),
            (i.recursion, "recursion"),
        ] {
            if on {
                ctx.label(name);
            }
        }
        let a = match adapter::analyze(&single(text), &Default::default()) {
            Ok(a) => a,
            Err(p) => {
                ctx.skip(&format!("c06_panic:{}", p.location()));
                return vec![];
            }
        };
        if !a.parse_errors.is_empty() {
            ctx.skip("generator_parse_error");
            return vec![];
        }
        let Some(cfg) = a.cfg else {
            ctx.skip(&format!("no_cfg:{}", a.cfg_error.map(|e| e.code).unwrap_or_default()));
            return vec![];
        };
        let lk = link(&rd, &case.lines, &cfg);
        if !lk.complete {
            ctx.skip("statement_node_correspondence_incomplete");
            return vec![];
        }
        let flat = flatten(&case.lines);
        let before: u64 = ctx.facts.iter().filter(|(k, _)| k.starts_with("derived")).map(|(_, v)| *v).sum();
        for inp in &case.inputs {
            if let Some(v) = run_trace(case, &flat, &cfg, &lk, inp, ctx, text) {
                return vec![v];
            }
        }
        let after: u64 = ctx.facts.iter().filter(|(k, _)| k.starts_with("derived")).map(|(_, v)| *v).sum();
        ctx.nontrivial = after > before;
        vec![]
    }
}

impl Prop for C01 {
    type Case = Case;

    fn gen(ch: &mut Choices, tier: Tier) -> Option<Case> {
        let big = tier == Tier::Thorough;
        let mut o = AbiOpts::all(if big { 4 } else { 3 }, if big { 14 } else { 9 });
        o.handoff = true;
        let (lines, info) = abi::program(ch, &o);
        let n = if big { 5 } else { 3 };
        let inputs = (0..n).map(|_| Inputs::from_choices(ch)).collect();
        Some(Case {
            lines,
            inputs,
            info,
        })
    }

    fn check(case: &Case, ctx: &mut Ctx) -> Vec<Violation> {
        C01::check_case(case, ctx)
    }

    fn show(case: &Case) -> Value {
        json!({"program": render_plain(&case.lines).text, "n_input_vectors": case.inputs.len(), "features": case.info})
    }
}
