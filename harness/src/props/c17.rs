//! C17 — numeric literals mean what they say.
//!
//! Oracle: an own literal evaluator (the generator knows the mathematical
//! value of every spelling it builds) against what the parser stores in the
//! node, always through the lexer and the parser.

use serde::{Deserialize, Serialize};
use serde_json::{json, Value};

use crate::adapter::{self, single, PNode};
use crate::choice::Choices;
use crate::model::TextIndex;
use crate::runner::{Ctx, Prop, Tier, Violation};

#[derive(Clone, Debug, Serialize, Deserialize, PartialEq, Eq)]
pub enum Expect {
    /// well-formed literal with this mathematical value
    Value(i128, /*decimal*/ bool),
    Malformed,
}

#[derive(Clone, Debug, Serialize, Deserialize)]
pub struct Case {
    pub site: String,
    pub lit: String,
    pub expect: Expect,
    pub notation: String,
}

pub const SITES: [&str; 11] = [
    "li", "addi", "lui", "lw", "sw", "word", "byte", "half", "csr", "csri", "jalr",
];

fn site_line(site: &str, lit: &str) -> String {
    match site {
        "li" => format!("    li t0, {lit}"),
        "addi" => format!("    addi t0, t1, {lit}"),
        "lui" => format!("    lui t0, {lit}"),
        "lw" => format!("    lw t0, {lit}(sp)"),
        "sw" => format!("    sw t0, {lit}(sp)"),
        "word" => format!("    .word {lit}"),
        "byte" => format!("    .byte {lit}"),
        "half" => format!("    .half {lit}"),
        "csr" => format!("    csrr t0, {lit}"),
        "csri" => format!("    csrrwi t0, uscratch, {lit}"),
        "jalr" => format!("    jalr t0, t1, {lit}"),
        _ => unreachable!(),
    }
}

pub fn program(site: &str, lit: &str) -> (String, usize, usize) {
    let head = "main:\n    li t1, 1\n";
    let line = site_line(site, lit);
    let tail = "\n    li a7, 10\n    ecall\n";
    let text = format!("{head}{line}{tail}");
    let head_chars = head.chars().count();
    let lit_off = line.find(lit).map(|b| line[..b].chars().count()).unwrap_or(0);
    let start = head_chars + lit_off;
    (text, start, start + lit.chars().count())
}

pub fn spell(v: i128, notation: &str, ch: &mut Choices) -> Option<String> {
    let neg = v < 0;
    let mag = v.unsigned_abs();
    let sign = if neg { "-" } else { "" };
    Some(match notation {
        "dec" => {
            let pad = if ch.chance(1, 6) { "00" } else { "" };
            format!("{sign}{pad}{mag}")
        }
        "hex" => {
            let digits = if ch.chance(1, 2) {
                format!("{mag:x}")
            } else {
                format!("{mag:X}")
            };
            let pfx = if ch.chance(1, 4) { "0X" } else { "0x" };
            let pad = if ch.chance(1, 5) { "0000" } else { "" };
            format!("{sign}{pfx}{pad}{digits}")
        }
        "bin" => {
            let pfx = if ch.chance(1, 4) { "0B" } else { "0b" };
            let pad = if ch.chance(1, 5) { "00" } else { "" };
            format!("{sign}{pfx}{pad}{mag:b}")
        }
        // two's complement spelling of a negative 32-bit value
        "hex2c" => {
            if !(-(1i128 << 31)..0).contains(&v) {
                return None;
            }
            format!("0x{:08x}", (v + (1i128 << 32)) as u32)
        }
        "char" => {
            let c = char::from_u32(u32::try_from(v).ok()?)?;
            match c {
                '\n' => "'\\n'".to_string(),
                '\t' => "'\\t'".to_string(),
                '\r' => "'\\r'".to_string(),
                '\0' => "'\\0'".to_string(),
                '\\' => "'\\\\'".to_string(),
                '\'' => "'\\''".to_string(),
                '"' if ch.chance(1, 2) => "'\\\"'".to_string(),
                c if (c as u32) < 32 || c as u32 == 127 => return None,
                c if (c as u32) < 0x10000 && (c as u32) > 126 && ch.chance(1, 2) => {
                    format!("'\\u{:04x}'", c as u32)
                }
                c => format!("'{c}'"),
            }
        }
        _ => return None,
    })
}

pub const MALFORMED: [&str; 30] = [
    "0x", "0b", "0b2", "0b102", "0xg", "0x1g", "--1", "-", "1_000", "0x-1", "0b-1", "12a", "1e3",
    "0x+5", "+5", "0b+1", "'ab'", "''", "0o17", "1-2", "-0x", "0xx1",
    // character literals with a broken escape
    "'\\u+041'", "'\\u-041'", "'\\u004g'", "'\\u41'", "'\\q'", "'\\x'", "-+5", "++5",
];

fn node_on_line<'a>(nodes: &'a [PNode], ti: &TextIndex, lit_start: usize) -> Vec<&'a PNode> {
    let (line, _) = ti.line_col(lit_start);
    let ls = ti.line_starts[line];
    let le = if line + 1 < ti.n_lines() {
        ti.line_starts[line + 1]
    } else {
        ti.len()
    };
    nodes
        .iter()
        .filter(|n| n.kind != "ProgramEntry" && n.range.start.raw >= ls && n.range.start.raw < le)
        .collect()
}

pub struct C17;

impl C17 {
    pub fn check_case(case: &Case, ctx: &mut Ctx) -> Vec<Violation> {
        let mut out = vec![];
        let (text, ls, le) = program(&case.site, &case.lit);
        let ti = TextIndex::new(&text);
        let range_class = match &case.expect {
            Expect::Malformed => "malformed",
            Expect::Value(v, _) if *v < -(1i128 << 31) => "below-32-bit",
            Expect::Value(v, _) if *v >= (1i128 << 32) => "above-32-bit",
            Expect::Value(v, _) if *v >= (1i128 << 31) => "upper-half",
            Expect::Value(v, _) if *v == -(1i128 << 31) => "int-min",
            Expect::Value(_, _) => "in-range",
        };
        let sign = if case.lit.starts_with('-') { "neg" } else { "pos" };
        let viol = |what: &str, msg: String| {
            Violation::new(format!(
                "{msg}\n  site={} literal={:?} expected={:?}\n  program:\n{}",
                case.site, case.lit, case.expect, text
            ))
            .with("what", what)
            .with("notation", case.notation.clone())
            .with("sign", sign)
            .with("range_class", range_class)
            .with("site", case.site.clone())
        };
        ctx.label(format!("site:{}", case.site));
        ctx.label(format!("notation:{}", case.notation));
        ctx.label(format!("class:{range_class}"));
        ctx.nontrivial = !(case.notation == "dec" && range_class == "in-range" && sign == "pos");
        let parsed = match adapter::parse(&single(&text)) {
            Ok(p) => p,
            Err(p) => {
                out.push(
                    viol("panic", format!("parser panicked: {}", p.message))
                        .with("panic_location", p.location()),
                );
                return out;
            }
        };
        // tail of the program must be unaffected in every case
        let tail_ok = parsed
            .nodes
            .iter()
            .filter(|n| n.shown == "ecall" || n.shown.starts_with("addi a7 <- zero, 10"))
            .count()
            == 2;
        if !tail_ok {
            out.push(viol(
                "tail-lost",
                "the statements after the literal's line were not parsed".into(),
            ));
        }
        let here = node_on_line(&parsed.nodes, &ti, ls);
        // values carried by nodes on that line
        let mut carried: Vec<i64> = vec![];
        for n in &here {
            if let Some(d) = &n.detail {
                match case.site.as_str() {
                    "csr" => {
                        if let Some(c) = d.csr {
                            carried.push(c as i64)
                        }
                    }
                    _ => {
                        if let Some(i) = d.imm {
                            carried.push(i)
                        }
                    }
                }
            }
            if let Some((_, vals, _)) = &n.dir {
                carried.extend(vals.iter().copied());
            }
        }
        let err_on_lit = parsed.errors.iter().any(|e| {
            e.range.start.raw < le && e.range.end.raw + 1 > ls && e.range.start.raw <= e.range.end.raw + 1
        });
        let expect_value = |v: i128| -> i64 {
            // what the node must hold for mathematical value v at this site
            match case.site.as_str() {
                "lui" => (((v as i64) << 12) as i32) as i64,
                "csr" => v as i64,
                _ => v as i64,
            }
        };
        match &case.expect {
            Expect::Value(v, decimal) => {
                let lo = -(1i128 << 31);
                let in_signed = (lo..(1i128 << 31)).contains(v);
                let upper = ((1i128 << 31)..(1i128 << 32)).contains(v);
                // site-specific domains the statement does not settle
                let site_settled = match case.site.as_str() {
                    "lui" => (0..(1i128 << 20)).contains(v) || !(in_signed || upper),
                    "csr" => (0..4096).contains(v) || !(in_signed || upper),
                    _ => true,
                };
                if !site_settled {
                    ctx.skip("site_unsettled");
                    return out;
                }
                if in_signed {
                    ctx.fact("accept_checked", 1);
                    let want = expect_value(*v);
                    if carried.len() != 1 || carried[0] != want {
                        out.push(viol(
                            if carried.is_empty() { "rejected-valid" } else { "wrong-value" },
                            format!(
                                "in-range literal must be read as {want}; node(s) on the line carry {carried:?}, parse errors: {:?}",
                                parsed.errors.iter().map(|e| e.title.clone()).collect::<Vec<_>>()
                            ),
                        ));
                    }
                } else if upper {
                    let want = expect_value(*v - (1i128 << 32));
                    ctx.fact("upper_half_checked", 1);
                    let ok_value = carried.len() == 1 && carried[0] == want;
                    let ok_reject = carried.is_empty() && err_on_lit;
                    if *decimal {
                        if !(ok_value || ok_reject) {
                            out.push(viol(
                                "wrong-value",
                                format!("decimal 2^31..2^32-1 must be read as {want} or rejected on the literal; got {carried:?}"),
                            ));
                        }
                    } else if !ok_value {
                        out.push(viol(
                            if carried.is_empty() { "rejected-valid" } else { "wrong-value" },
                            format!("hex/binary 2^31..2^32-1 must be read as {want}; got {carried:?}"),
                        ));
                    }
                } else {
                    ctx.fact("reject_checked", 1);
                    if !carried.is_empty() {
                        out.push(viol(
                            "accepted-out-of-range",
                            format!("literal does not fit in 32 bits but node(s) carry {carried:?}"),
                        ));
                    } else if !err_on_lit {
                        out.push(viol(
                            "no-error-on-literal",
                            format!(
                                "out-of-range literal produced no parse error located on it; errors: {:?}",
                                parsed.errors.iter().map(|e| (e.title.clone(), e.range.start.raw, e.range.end.raw)).collect::<Vec<_>>()
                            ),
                        ));
                    }
                }
            }
            Expect::Malformed => {
                ctx.fact("reject_checked", 1);
                if !carried.is_empty() {
                    out.push(viol(
                        "accepted-malformed",
                        format!("malformed literal but node(s) carry {carried:?}"),
                    ));
                } else if !err_on_lit {
                    out.push(viol(
                        "no-error-on-literal",
                        format!(
                            "malformed literal produced no parse error located on it; errors: {:?}",
                            parsed.errors.iter().map(|e| (e.title.clone(), e.range.start.raw, e.range.end.raw)).collect::<Vec<_>>()
                        ),
                    ));
                }
            }
        }
        out
    }
}

fn sites_for(notation: &str) -> Vec<&'static str> {
    SITES
        .iter()
        .copied()
        .filter(|s| !(notation == "char" && *s == "csr"))
        .collect()
}

impl Prop for C17 {
    type Case = Case;

    fn gen(ch: &mut Choices, _tier: Tier) -> Option<Case> {
        let kind = ch.weighted(&[10, 3, 2]);
        if kind == 2 {
            let lit = (*ch.pick(&MALFORMED)).to_string();
            let site = *ch.pick(&SITES);
            if site == "csr" {
                return None;
            }
            return Some(Case {
                site: site.to_string(),
                lit,
                expect: Expect::Malformed,
                notation: "malformed".into(),
            });
        }
        let v: i128 = if kind == 1 {
            // out of range magnitudes up to 2^65
            let bits = ch.int_in(32, 65) as u32;
            let base = 1i128 << bits;
            let delta = ch.int_in(-2, 2) as i128;
            let v = base + delta + if ch.chance(1, 3) { ch.raw() as i128 } else { 0 };
            if ch.chance(1, 2) {
                -v
            } else {
                v
            }
        } else {
            match ch.weighted(&[4, 3, 3]) {
                0 => ch.word() as i32 as i128,
                1 => ch.raw() as i128, // 0 .. 2^32-1
                _ => -(ch.raw() as i128 >> ch.below(32)),
            }
        };
        let notation = *ch.pick(&["dec", "hex", "bin", "hex2c", "char"]);
        let lit = spell(v, notation, ch)?;
        let mut notation = notation.to_string();
        let mut v = v;
        if notation == "hex2c" {
            v += 1i128 << 32;
            notation = "hex".into();
        }
        let site = *ch.pick(&sites_for(&notation));
        Some(Case {
            site: site.to_string(),
            lit,
            expect: Expect::Value(v, notation == "dec"),
            notation,
        })
    }

    fn check(case: &Case, ctx: &mut Ctx) -> Vec<Violation> {
        C17::check_case(case, ctx)
    }

    fn show(case: &Case) -> Value {
        json!({"site": case.site, "literal": case.lit, "expect": format!("{:?}", case.expect),
               "program": program(&case.site, &case.lit).0})
    }

    fn enumerate(_tier: Tier, ctx: &mut Ctx) -> (u64, Vec<(Case, Vec<Violation>)>) {
        let mut n = 0;
        let mut fails = vec![];
        let mut values: Vec<i128> = vec![];
        for base in [
            0i128,
            1 << 11,
            1 << 12,
            1 << 19,
            1 << 20,
            1 << 31,
            1 << 32,
            1 << 33,
            1 << 63,
            1 << 64,
            1 << 65,
        ] {
            for d in -2..=2 {
                values.push(base + d);
                values.push(-(base + d));
            }
        }
        values.sort();
        values.dedup();
        let empty: [u32; 0] = [];
        for v in &values {
            for notation in ["dec", "hex", "bin", "hex2c", "char"] {
                // canonical spelling and an upper-case / padded variant
                for variant in 0..2 {
                    let data = [u32::MAX; 8];
                    let mut ch = if variant == 0 {
                        Choices::new(&empty)
                    } else {
                        Choices::new(&data)
                    };
                    let Some(lit) = spell(*v, notation, &mut ch) else { continue };
                    let (val, notation) = if notation == "hex2c" {
                        (*v + (1i128 << 32), "hex")
                    } else {
                        (*v, notation)
                    };
                    for site in sites_for(notation) {
                        let case = Case {
                            site: site.to_string(),
                            lit: lit.clone(),
                            expect: Expect::Value(val, notation == "dec"),
                            notation: notation.to_string(),
                        };
                        n += 1;
                        let mut c2 = Ctx::default();
                        let vs = C17::check_case(&case, &mut c2);
                        for (k, x) in c2.facts {
                            ctx.fact(&k, x);
                        }
                        if !vs.is_empty() {
                            fails.push((case, vs));
                        }
                    }
                }
            }
        }
        for lit in MALFORMED {
            for site in SITES {
                if site == "csr" {
                    continue;
                }
                let case = Case {
                    site: site.to_string(),
                    lit: lit.to_string(),
                    expect: Expect::Malformed,
                    notation: "malformed".into(),
                };
                n += 1;
                let mut c2 = Ctx::default();
                let vs = C17::check_case(&case, &mut c2);
                for (k, x) in c2.facts {
                    ctx.fact(&k, x);
                }
                if !vs.is_empty() {
                    fails.push((case, vs));
                }
            }
        }
        ctx.fact("enumerated_boundary_cases", n);
        (n, fails)
    }
}
