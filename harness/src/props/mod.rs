//! One module per property; `registry()` lists the checks.

use crate::runner::{entry, Entry};

pub mod c01;
pub mod c02;
pub mod c03;
pub mod c04;
pub mod c05;
pub mod c06;
pub mod c07;
pub mod c08;
pub mod c09;
pub mod c10;
pub mod c11;
pub mod c12;
pub mod c13;
pub mod c14;
pub mod c15;
pub mod c16;
pub mod c17;
pub mod c18;
pub mod c19;

pub fn registry() -> Vec<Entry> {
    vec![
        entry::<c01::C01>(
            "C01",
            900,
            24_000,
            1_000_000,
            "ABI-safe but internally wild programs (1-4 functions: multi-step and nested sp adjustment, re-used stack slots, sw zero, store-then-redefine-then-reload, sub-word stack accesses, red-zone stores across calls, arithmetic on sp copies, folding chains over all operators with boundary constants, la + loads/stores, ecalls with results, mv into a7, diamonds, counted loops, early returns, recursion) x 3-5 vectors of initial registers / memory / environment results, executed on the reference machine. At every step every claim in the node's in/out value maps of the kinds the statement names (constant, label address, entry value + constant; for registers and stack slots relative to the entry sp) is compared with the machine state of the current activation. Non-trivial = at least one derived claim (not an entry seed) was checked; distinct = different program + inputs.",
            &["reference machine", "callees are ABI-safe by construction; a trace is cut where a function writes at/above its entry sp", "RARS environment-call register table taken from the analyzer", "other value kinds (register+scalar, memory-at, CSR) are not claims in the sense of the statement"],
        ),
        entry::<c02::C02>(
            "C02",
            900,
            40_000,
            1_500_000,
            "programs from three generators (ABI-safe wild functions; structured arbitrary control flow; chaotic control flow with cross-function jumps and shared code), any number of functions / call sites / loops / recursion / multiple returns. Static half on all: a reference solver computes the least solution of the documented liveness equations over the observed graph with architectural read/write sets from the model; live_in/live_out of every node, arguments()/returns() of every function and the set of 'unused value' warnings must equal it (missing = unsound, extra = not minimal). Dynamic half on the ABI-safe programs x 2-4 input vectors: for every register read on the machine, the register must be live from its defining write (or frame entry, call or ecall by convention) along the executed path of its activation; callee read-before-write argument registers must be inferred arguments and live-in at the call; values left by a callee and read by the caller must be inferred returns; no executed-and-read definition carries an 'unused value' warning. Non-trivial = at least one call and one join.",
            &["reference machine and architectural read/write table", "RARS environment-call register table taken from the analyzer", "ra is not in kill at calls in the documented equations; the reference follows the documentation"],
        ),
        entry::<c03::C03>(
            "C03",
            700,
            120_000,
            2_500_000,
            "arbitrary well-formed programs in the stated domain (regions of labelled blocks with random branches/jumps/calls, cross-region jumps, shared tails, several labels per entry, multiple returns, exit ecalls inside functions, fall-through into functions, dead blocks; no indirect jump but ret) x 4-6 initial register/memory/environment vectors executed on the reference machine. Checked: successor/predecessor sets are exact inverses and stay inside the graph; every executed intra-procedural transfer (incl. call -> next instruction on return) is an edge; every edge is a fall-through, a jump to the written label or the merge of an extra return; exit ecalls have no successors; no executed line is reported unreachable. Programs with several returns are analysed 3 times (hash orders). Non-trivial = has a backward branch or a call and executed >= 5 distinct lines.",
            &["reference machine", "programs the analyzer rejects with a CFG error are skipped and counted (C16 covers them)"],
        ),
        entry::<c04::C04>(
            "C04",
            1600,
            20_000,
            500_000,
            "programs generated conforming-by-construction (main + 0-5 functions of arity 0-3 with or without result, leaf and non-leaf, any subset of saved registers, shuffled frame layouts with padding and spill slots, one- or two-step frame allocation, nested if/else and counted loops, calls in loops, recursion, early returns with a full second epilogue, ecalls with and without results, data loads/stores, mv/addi into a7) and confirmed by a dynamic convention monitor on 3 executions, rendered with every surface freedom; RVParser-level lint of the staged pipeline must return no diagnostic of any kind. Non-trivial = >= 2 functions, a frame with a saved register, a loop or branch, and a call inside a loop / recursion / >= 2 calls.",
            &["'conforming' is the statement's own list, enforced by construction and by the dynamic monitor (trusted base), never by what the analyzer accepts", "nop is not generated (it is an arithmetic write to the zero register)", "programs the monitor rejects are generator bugs: discarded and counted"],
        ),
        entry::<c05::C05>(
            "C05",
            1400,
            16_000,
            400_000,
            "clean base program (generated conforming, analyzer-clean, else skipped) x 16 violation classes (unsaved saved register modified; sp not restored (epilogue adjustment deleted or wrong); ra not restored; temporary read after a call; never-assigned temporary read in main / in a function; never-assigned saved register read; dead assignment; arithmetic write to zero; stack access at or above the entry sp; instructions in .data; ecall number loaded from memory; straight-line code after ret/exit; plain jump into a function; fall-through into the next function; called function first in the program) x admissible site/register. The mutated program must get a diagnostic of the class's kind located in the class's acceptance set (injected instruction / operand, or any instruction of the function writing the register for sp/ra). Where an execution can show the fault, the convention monitor must confirm it on the mutant first. Non-trivial = injection applied and (where observable) confirmed; evidence tabulates cases per class.",
            &["acceptance sets are deliberately wide where the statement does not fix which of several offending instructions is meant", "convention monitor and clean generator are the trusted base"],
        ),
        {
            let mut e = entry::<c06::C06>(
                "C06",
                2600,
                20_000,
                400_000,
                "hostile inputs in five modes: character soup over a table with NUL, CR, quotes, backslashes, U+00A0, U+2028, BOM, emoji; token soup over the analyzer's own vocabulary (96 mnemonics/registers/directives/CSR names/labels, 40 boundary and malformed literals, punctuation); 1-4 line-level mutations of valid generated programs (delete/duplicate/swap/truncate line, drop operand, corrupt or insert a character, insert tokens) with LF or CRLF; 22 structural families (runs of '.', '(', newlines, quotes; n labels; huge .word list; huge comment / operand list / literal; n labels + n branches; nested loops; diamond chains; call chains; unterminated .macro; a function that leaves a saved register unrestored behind n balanced if/else blocks; the 12^3 grid of extreme immediates around sp; Unicode white space x 8 positions; a run of every character of the table (1 to 40 000) and of every token of the vocabulary (2 to 5 000); long lines ending in multi-byte characters x 5 indentations), enumerated at fixed sizes up to 20 000 (thorough 100 000), the crash-prone ones through the rva binary first; ten fixed include graphs on disk (self-inclusion and cycles under every spelling of the path, missing file, directory as file) x 3 modes; include graphs over 1-4 in-memory files with self-inclusion, cycles, missing and unquoted targets. Each case runs RVParser::run (library entry point) and the staged pipeline in-process under catch_unwind with a deterministic sweep limit, in the overflow-checked and in the release profile; a worker that dies (stack overflow, abort, OOM) is re-run alone to confirm. One case in 25 is also written to disk and linted by the rva binary (dev/release) in one of 9 output modes under a CPU-time limit. Work bound: sweeps <= 4*(4+2n) / 4+2n from hook counters. Non-trivial = reached the parser with a node or an error, or a structural family.",
                &["a wall-clock watchdog expiry is inconclusive (exit 2), only the CPU-time limit and the sweep limit count as non-termination", "stack size is the default 8 MiB of the worker process"],
            );
            e.release_too = true;
            e
        },
        entry::<c07::C07>(
            "C07",
            400,
            600_000,
            12_000_000,
            "files of one statement per line (generated main+functions+data programs, every statement form) with 0-3 malformed/unsupported lines of 14 kinds inserted at random positions, LF/CRLF, with/without final newline, optionally cut into an included file. Or-A: every line with content is covered by a node or a parse error located on it; Or-B: nodes and errors of all other lines equal those of the file with the malformed lines deleted. Non-trivial = a malformed line with >= 3 good lines after it, or CRLF, or no final newline; distinct = different file contents.",
            &["line numbers are recomputed here from raw offsets", ".include lines are consumed by the parser and count as covered"],
        ),
        {
            let mut e = entry::<c08::C08>(
                "C08",
                8,
                1_000_000,
                60_000_000,
                "decode table: every mnemonic the reference machine knows x every operand form the manual assigns a meaning to x boundary registers {zero, ra, sp, t0, a0, t6} x boundary immediates, enumerated exhaustively: each statement is parsed, the node(s) built are compared field by field (base forms) and executed by the reference machine next to the official meaning on 6 register files (result register, next instruction, memory effect), and the node's read/write sets are compared with the architectural ones. Folding: 18 operators x a 40-value boundary grid squared (exhaustive) through MathOp::operate, 27 mnemonics x 12x12 sub-grid through the value analysis, plus random 32-bit pairs; both in the overflow-checked and the release profile. Every case is non-trivial; distinct = different statement / operand pair.",
                &[
                    "reference machine (unit-tested against hand-computed vectors and i128 arithmetic)",
                    "not checked (no meaning in the manual or not RV32): sgez, b, RARS `sw rs, imm, tmp`, register-first csrw/csrs/csrc, `jalr rd, imm`, lwu, all *w instructions, uret, fence",
                ],
            );
            e.release_too = true;
            e
        },
        entry::<c09::C09>(
            "C09",
            500,
            150_000,
            5_000_000,
            "generated programs (all statement forms, data section, optional malformed lines, optional include split, optional CRLF) rendered with every surface freedom (indentation, separators, case, register spelling, radix, inline labels, comments, blank lines, leading blank lines, omitted zero offsets). Every lexer token is compared with a reference tokenizer; every node, operand, parse error and diagnostic must have consistent line/column/raw, lie on one line, and designate exactly a statement / operand / label span of the renderer's source map (or whole tokens). Non-trivial = token on line 0 after column 0, or leading blank line, or ')'-terminated instruction, or diagnostic in an included file.",
            &["reference tokenizer written from the documented token classes", "directive nodes are checked at their start only (data lists may continue on following lines)", "diagnostics attached to no file are left to C16"],
        ),
        entry::<c10::C10>(
            "C10",
            500,
            30_000,
            600_000,
            "arbitrary programs (several entry labels, several returns, shared code, data labels next to code, 1-2 CFG faults incl. several undefined labels) and syntactic programs with malformed lines, single- and multi-file (include split). The library entry point RVParser::run is called 6 (thorough: 12) times on fresh readers (new file/node uuids and hasher keys each time): the sequences of (file, range, title, level, description, related) must be identical, and within one run no two items may agree in all fields. Thorough also compares separate rva processes in every output mode. Non-trivial = >= 2 diagnostics and an order-sensitive shape; detection probability for a two-way hash-order tie is 1-2^-(R-1).",
            &["hash seeds and uuids cannot be enumerated or seeded from outside; they are sampled by repetition"],
        ),
        entry::<c11::C11>(
            "C11",
            500,
            40_000,
            800_000,
            "arbitrary label/call arrangements (several labels on one entry, interleaved bodies via cross-region jumps, shared tails, fall-through into functions, calls to inner labels, recursion, functions only called from dead code, multiple returns), each analysed 3 times (hash orders). From the text: F = labels named by jal-with-ra/call; required: function entries = F; nodes() of each function = nodes reachable from its entry over the observed edges (own BFS by identity); each node's owner list = functions that reach it; the exit is a reached return and every other return of a non-overlapping function leads to it; a node-in-many-functions diagnostic exists iff some node has >= 2 owners. Non-trivial = >= 2 functions and one of the listed arrangements.",
            &["interrupt-vector installation (la + csrw utvec) is not generated", "duplicates inside nodes() are counted, not reported (the statement is about the set)"],
        ),
        entry::<c12::C12>(
            "C12",
            500,
            30_000,
            1_000_000,
            "arbitrary programs (loops, irreducible flow via cross-region jumps, recursion, many exits and returns) x a random sequence (length 0-6) of extra pass runs drawn from {value analysis, ecall termination, liveness}. Snapshot (edges by index, value/memory facts, liveness, u_def, function annotations, diagnostics) after the standard pipeline must equal the snapshot after the extra sequence and the snapshot of a second, fresh analysis; hook counters bound the sweeps: value analysis <= 4*(4+2n) over its four runs, liveness <= 4+2n. Non-trivial = loop, several returns or exit inside a function, and >= 8 nodes.",
            &["sweep counters come from the guarded hook commit", "bounds were calibrated on the repaired tree with 2x headroom (maxima are reported in the evidence)"],
        ),
        entry::<c13::C13>(
            "C13",
            1500,
            15_000,
            400_000,
            "base programs from four sources (clean; clean with one injected violation; arbitrary control flow with optional CFG faults; syntactic with every statement form) rendered twice: canonically, and with the official expansion substituted for a random subset of pseudo-instructions (23 rules with operand index maps) plus every surface freedom applied per site (spacing, tabs, separators, comments, blank lines, mnemonic case, register spelling, immediate radix / character literal, inline labels, omitted zero offsets). The multisets of (diagnostic code, statement, operand) located through each rendering's own source map must be equal. Non-trivial = the base has a diagnostic or >= 3 sites were rewritten.",
            &["a diagnostic on an operand that exists only in the expansion (the inserted x0) is mapped to the instruction", "csr pseudo forms are not rewritten (RARS operand order)"],
        ),
        entry::<c14::C14>(
            "C14",
            1500,
            15_000,
            400_000,
            "the same four program sources x a random permutation of t0-t6 among themselves and of s0-s11 among themselves x an injective renaming of a random subset of labels to fresh identifiers (upper case, leading underscore, dots, digits): the diagnostics (code, statement, operand) must be unchanged and the registers they designate must be the images under the permutation. Non-trivial = the base has a diagnostic and a register moved, or >= 3 labels renamed.",
            &["error titles that list label names are compared by code and location, not by text"],
        ),
        entry::<c15::C15>(
            "C15",
            1600,
            24_000,
            800_000,
            "program (four sources, clean and violating) x random include tree cut at line boundaries (up to 4-5 files, nesting, several includes per file) x reader fault (not found, IO error, already read) or a self-/cyclic re-inclusion directive. Through the in-memory FileReader: the diagnostics of the split program, each located in the file that holds its text and mapped to the pasted line, must equal those of the single pasted file (minus the subtree of a failing include); each failing include must give an error located exactly on its path operand; the import must stay within a budget. One case in three spells the include paths as ./x, sub/../x or ./sub/.././x (same file under another name). For one case in 8 the same files are written to a scratch directory and linted by the rva binary: --all-files must show the library's items, the default output exactly the base-file items plus the right count for other files, and the tool must terminate. Non-trivial = a diagnostic in a non-base file or a fault.",
            &["MemReader decides 'already read' by path, like a file-system reader", "CLI part only for 'not found' faults (IO errors cannot be provoked portably on disk)"],
        ),
        entry::<c16::C16>(
            "C16",
            400,
            400_000,
            6_000_000,
            "parse-clean arbitrary programs with 1-2 injected CFG-level faults of 12 kinds (undefined label in j/branch/call/la/load, several undefined labels, duplicate code/function label, label at end of file as jump target or unused, function without return (infinite loop / exit inside), call to a data label), optionally cut into an included file. Required: undefined/duplicate labels give an error naming the label located at a use/definition of it; any other error that stops the analysis is specific (not 'unexpected'/'assertion'), attached to a user file and has a non-empty location. Non-trivial = at least one fault injected (tabulated per kind).",
            &["when undefined and duplicate labels occur together one correctly located error is accepted (analysis stops at the first)", "a combined error for several undefined labels is accepted when it is located at an occurrence of one of them"],
        ),
        entry::<c17::C17>(
            "C17",
            24,
            600_000,
            60_000_000,
            "literal = (value | malformed spelling) x notation {dec,hex,bin,char, two's-complement hex} x sign x letter case x padding, placed in 11 operand sites (li, addi, lui, lw/sw offset, jalr, .word/.byte/.half, CSR number, CSR immediate) and parsed through lexer+parser; boundaries of the 32-bit range +-2 are enumerated exhaustively over all notations and sites, the rest sampled. Non-trivial = anything but a plain positive in-range decimal; distinct = different (site, spelling).",
            &[
                "own literal evaluator (the generator builds each spelling from a known mathematical value)",
                "lui outside 20 bits, CSR numbers outside 0..4095 and decimal 2^31..2^32-1 are left unconstrained (the statement does not settle them)",
            ],
        ),
        entry::<c18::C18>(
            "C18",
            1700,
            1600,
            40_000,
            "single- and multi-file programs (four sources, optional malformed lines, optional include split, all surface styles incl. leading blank lines, tabs and comments, one in six with CRLF line ends, one in eight with an include of a file that does not exist) written to a scratch directory and linted by the rva binary (dev, one in four release) in 8 modes: compact / pretty / JSON x default / --all-files, plus colour variants. Checked: JSON parses with the documented shape (unknown fields rejected); compact, pretty and JSON show the same (file, line, columns, severity, title) items under the same file selection; 'found in other files' counts; pretty and compact list the same items in the same order; each pretty excerpt is the source line with the marker under the reported columns; colour output minus ANSI equals --no-color; items are ordered by position within each file; titles non-empty; one severity per kind; RVParser::run over an in-memory reader with the same files gives the CLI's --all-files list. Non-trivial = >= 2 diagnostics.",
            &["JSON carries no file filter: it is compared with --all-files output and, filtered to the base file, with the default output", "an input on which every CLI mode fails is counted and left to C06; a mode that fails while another one prints its diagnostics is a disagreement between channels", "the wording of a failed include depends on the reader (file system vs in-memory) and is not compared between the library call and the CLI; its position, severity and file are"],
        ),
        entry::<c19::C19>(
            "C19",
            300,
            20_000,
            500_000,
            "(a) dumps of real analyses of programs from three generators (ABI-safe wild functions with stack facts, chaotic control flow with function annotations, syntactic programs with CSR code): the --yaml text is loaded back (as CfgWrapper and as its node list) and compared field by field with the live graph (edges, labels, function entry/exit, value and memory facts, liveness, u_def), and dump(load(dump)) must be textually identical; (b) generated facts: one fact of the loaded structure is replaced (value of every variant - constant, address, memory, register+scalar, original+scalar, memory-at-register/original, CSR value, memory-at-CSR - with offsets 0, +-1, +-4, +-2048, i32::MIN/MAX; memory locations stack/CSR/CSR+offset with the same offsets; an edge, a liveness bit, a function entry/exit, a label), dumped, reloaded and compared with the mutated structure; (c) injectivity: original, mutant and a twin mutant (same place and payload, different variant) must have pairwise different dumps whenever their structures differ. Non-trivial = a pair of structurally different results was compared; value kinds seen are tabulated.",
            &["NodeWrapper's own == compares parser nodes by uuid, so an own structural comparison is used", "a CfgWrapper is a transparent sequence of NodeWrapper, which is how single facts are replaced through the public API"],
        ),
    ]
}
