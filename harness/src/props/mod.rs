//! One module per property; `registry()` lists the checks.

use crate::runner::{entry, Entry};

pub mod c07;
pub mod c08;
pub mod c09;
pub mod c17;

pub fn registry() -> Vec<Entry> {
    vec![
        entry::<c07::C07>(
            "C07",
            400,
            6000,
            300_000,
            "files of one statement per line (generated main+functions+data programs, every statement form) with 0-3 malformed/unsupported lines of 14 kinds inserted at random positions, LF/CRLF, with/without final newline, optionally cut into an included file. Or-A: every line with content is covered by a node or a parse error located on it; Or-B: nodes and errors of all other lines equal those of the file with the malformed lines deleted. Non-trivial = a malformed line with >= 3 good lines after it, or CRLF, or no final newline; distinct = different file contents.",
            &["line numbers are recomputed here from raw offsets", ".include lines are consumed by the parser and count as covered"],
        ),
        {
            let mut e = entry::<c08::C08>(
                "C08",
                8,
                40_000,
                3_000_000,
                "decode table: every mnemonic the reference machine knows x every operand form the manual assigns a meaning to x boundary registers {zero, ra, sp, t0, a0, t6} x boundary immediates, enumerated exhaustively: each statement is parsed, the node(s) built are compared field by field (base forms) and executed by the reference machine next to the official meaning on 6 register files (result register, next instruction, memory effect), and the node's read/write sets are compared with the architectural ones. Folding: 18 operators x a 40-value boundary grid squared (exhaustive) through MathOp::operate, 27 mnemonics x 12x12 sub-grid through the value analysis, plus random 32-bit pairs; both in the overflow-checked and the release profile. Every case is non-trivial; distinct = different statement / operand pair.",
                &[
                    "reference machine (unit-tested against hand-computed vectors and i128 arithmetic)",
                    "not checked (no meaning in the manual or not RV32): sgez, b, RARS `sw rs, imm, tmp`, register-first csrw/csrs/csrc, `jalr rd, imm`, lwu, all *w instructions, uret, fence",
                ],
            );
            e.release_too = true;
            e
        },
        entry::<c09::C09>(
            "C09",
            500,
            5000,
            250_000,
            "generated programs (all statement forms, data section, optional malformed lines, optional include split, optional CRLF) rendered with every surface freedom (indentation, separators, case, register spelling, radix, inline labels, comments, blank lines, leading blank lines, omitted zero offsets). Every lexer token is compared with a reference tokenizer; every node, operand, parse error and diagnostic must have consistent line/column/raw, lie on one line, and designate exactly a statement / operand / label span of the renderer's source map (or whole tokens). Non-trivial = token on line 0 after column 0, or leading blank line, or ')'-terminated instruction, or diagnostic in an included file.",
            &["reference tokenizer written from the documented token classes", "directive nodes are checked at their start only (data lists may continue on following lines)", "diagnostics attached to no file are left to C16"],
        ),
        entry::<c17::C17>(
            "C17",
            24,
            6000,
            400_000,
            "literal = (value | malformed spelling) x notation {dec,hex,bin,char, two's-complement hex} x sign x letter case x padding, placed in 11 operand sites (li, addi, lui, lw/sw offset, jalr, .word/.byte/.half, CSR number, CSR immediate) and parsed through lexer+parser; boundaries of the 32-bit range +-2 are enumerated exhaustively over all notations and sites, the rest sampled. Non-trivial = anything but a plain positive in-range decimal; distinct = different (site, spelling).",
            &[
                "own literal evaluator (the generator builds each spelling from a known mathematical value)",
                "lui outside 20 bits, CSR numbers outside 0..4095 and decimal 2^31..2^32-1 are left unconstrained (the statement does not settle them)",
            ],
        ),
    ]
}
