//! C02 — liveness covers every real use and is the least solution of its equations.
//!
//! Or-A (static): a reference solver computes the least solution of the
//! documented equations on the observed graph with architectural read/write
//! sets taken from the model; live sets, argument/return sets and the
//! dead-assignment warnings must agree.
//! Or-B (dynamic): on machine traces, every register read must be live from
//! its defining write to the read, along the executed path of its activation.

use std::collections::{BTreeMap, BTreeSet};

use serde::{Deserialize, Serialize};
use serde_json::{json, Value};

use crate::adapter::{self, single, CfgView};
use crate::arch;
use crate::choice::Choices;
use crate::gen::abi::{self, AbiOpts};
use crate::gen::wild::{self, WildOpts};
use crate::link::{link, Link};
use crate::machine::{ecall_sig, flatten, Flat, Inputs, Kind, Machine};
use crate::model::*;
use crate::props::c03::label_operand;
use crate::runner::{Ctx, Prop, Tier, Violation};

#[derive(Clone, Debug, Serialize, Deserialize)]
pub struct Case {
    pub lines: Vec<Line>,
    pub inputs: Vec<Inputs>,
    pub source: String,
    pub calls: usize,
    pub joins: usize,
}

pub struct C02;

#[derive(Clone, Debug, PartialEq)]
enum NKind {
    ProgramEntry,
    FuncEntry,
    /// call or jump to function `f` (index), `linking` = jal ra
    ToFunction { f: usize, linking: bool },
    Ecall,
    Return { uret: bool },
    Plain,
}

struct RefModel {
    kind: Vec<NKind>,
    gen: Vec<u32>,
    kill: Vec<u32>,
}

fn arg_mask() -> u32 {
    mask(&ARGS)
}

fn build_model(lines: &[Line], cfg: &CfgView, lk: &Link) -> RefModel {
    let n = cfg.nodes.len();
    // every label that stands on a function's entry instruction names that function (taken from the
    // nodes, not from the analyzer's label -> function map, which is one of the things under test)
    let mut fn_of_label: std::collections::BTreeMap<String, usize> = std::collections::BTreeMap::new();
    for (fi, f) in cfg.functions.iter().enumerate() {
        for l in &cfg.nodes[f.entry].labels {
            fn_of_label.entry(l.clone()).or_insert(fi);
        }
    }
    let mut kind = vec![NKind::Plain; n];
    let mut gen = vec![0u32; n];
    let mut kill = vec![0u32; n];
    for nd in &cfg.nodes {
        let i = nd.idx;
        if nd.is_program_entry {
            kind[i] = NKind::ProgramEntry;
            continue;
        }
        if nd.is_func_entry {
            kind[i] = NKind::FuncEntry;
            kill[i] = caller_saved_mask();
            continue;
        }
        let Some(li) = lk.node_line[i] else { continue };
        let Line::Ins(ins) = &lines[li] else { continue };
        let nodes = &lk.line_nodes[&li];
        let (mut r, mut w) = arch::rw(ins);
        if nodes.len() == 2 {
            // `lw rd, label` = la rd, label ; lw rd, 0(rd)   |   `sw rs, label, t` = la t, label ; sw rs, 0(t)
            let is_load = ins.mn.starts_with('l');
            let first = nodes[0] == i;
            let rd = match ins.ops.first() {
                Some(Opd::R(x)) => *x,
                _ => 0,
            };
            let tmp = match ins.ops.get(2) {
                Some(Opd::R(x)) => *x,
                _ => 0,
            };
            let b = |x: u8| if x == 0 { 0 } else { 1u32 << x };
            if is_load {
                r = if first { 0 } else { b(rd) };
                w = b(rd);
            } else if first {
                r = 0;
                w = b(tmp);
            } else {
                r = b(rd) | b(tmp);
                w = 0;
            }
        }
        gen[i] = r;
        kill[i] = w;
        if nd.is_ecall {
            kind[i] = NKind::Ecall;
        } else if nd.is_return {
            let uret = ins.mn == "uret";
            kind[i] = NKind::Return { uret };
            gen[i] = if uret { !1u32 } else { callee_saved_mask() };
            kill[i] = 0;
        } else if let Some(l) = label_operand(ins) {
            // call, or jump/branch whose target is a function label
            let is_mem = nodes.len() == 2 || matches!(ins.mn.as_str(), "la" | "lw" | "lh" | "lb" | "lhu" | "lbu" | "sw" | "sh" | "sb");
            if !is_mem {
                if let Some(f) = fn_of_label.get(l) {
                    let linking = w & (1 << RA) != 0;
                    // a jal that links into another register is neither a call nor a plain jump
                    let jumps = w == 0;
                    if linking || jumps {
                        kind[i] = NKind::ToFunction { f: *f, linking };
                        if linking {
                            kill[i] = caller_saved_mask();
                        }
                    }
                }
            }
        }
    }
    RefModel { kind, gen, kill }
}

/// Least solution of the documented equations, by iteration from the empty sets.
fn solve(cfg: &CfgView, m: &RefModel) -> (Vec<u32>, Vec<u32>) {
    let n = cfg.nodes.len();
    let mut live_in = vec![0u32; n];
    let mut live_out = vec![0u32; n];
    let mut changed = true;
    let mut rounds = 0;
    while changed && rounds < 10_000 {
        changed = false;
        rounds += 1;
        for i in (0..n).rev() {
            let nd = &cfg.nodes[i];
            let out = nd.nexts.iter().fold(0u32, |a, s| a | live_in[*s]);
            if out != live_out[i] {
                live_out[i] = out;
                changed = true;
            }
            let new_in = match &m.kind[i] {
                NKind::ToFunction { f, .. } => {
                    let func = &cfg.functions[*f];
                    let e = func.exit;
                    let merged = live_in[e] | out;
                    if merged != live_in[e] {
                        live_in[e] = merged;
                        changed = true;
                    }
                    (live_out[func.entry] & arg_mask()) | (out & !m.kill[i]) | m.gen[i]
                }
                NKind::Ecall => {
                    let args = nd
                        .known_ecall
                        .and_then(ecall_sig)
                        .map(|(a, _)| mask(a))
                        .unwrap_or(0);
                    (out & !caller_saved_mask()) | (1 << A7) | args
                }
                NKind::Return { .. } => live_in[i] | m.gen[i],
                NKind::FuncEntry => out & !m.kill[i],
                NKind::ProgramEntry | NKind::Plain => m.gen[i] | (out & !m.kill[i]),
            };
            if new_in != live_in[i] {
                live_in[i] = new_in;
                changed = true;
            }
        }
    }
    (live_in, live_out)
}

fn static_half(lines: &[Line], cfg: &CfgView, lk: &Link, lints: &[adapter::Diag], rd: &Rendered, ctx: &mut Ctx, out: &mut Vec<Violation>) {
    let text = &rd.text;
    let m = build_model(lines, cfg, lk);
    let (rin, rout) = solve(cfg, &m);
    for nd in &cfg.nodes {
        let i = nd.idx;
        ctx.fact("nodes_compared_with_reference_solution", 1);
        for (set, got, want) in [("in", nd.live_in, rin[i]), ("out", nd.live_out, rout[i])] {
            if got != want {
                let missing = want & !got;
                let extra = got & !want;
                out.push(
                    Violation::new(format!(
                        "live_{set} of node #{i} {:?} (line {}): analyzer {{{}}}, least solution of the documented equations {{{}}} (missing {{{}}}, extra {{{}}})\n{text}",
                        nd.shown,
                        nd.range.start.line + 1,
                        mask_names(got),
                        mask_names(want),
                        mask_names(missing),
                        mask_names(extra)
                    ))
                    .with("half", "static")
                    .with("set", set)
                    .with("direction", if missing != 0 { "missing" } else { "extra" })
                    .with("node_kind", format!("{:?}", m.kind[i]).split(|c| c == ' ' || c == '{').next().unwrap_or("").to_string()),
                );
                return;
            }
        }
    }
    for f in &cfg.functions {
        let want_args = rout[f.entry] & arg_mask();
        let want_rets = rin[f.exit] & arg_mask();
        ctx.fact("function_signatures_compared", 1);
        if f.arguments != want_args || f.returns != want_rets {
            out.push(
                Violation::new(format!(
                    "function {:?}: arguments {{{}}} returns {{{}}}, reference {{{}}} / {{{}}}\n{text}",
                    f.labels,
                    mask_names(f.arguments),
                    mask_names(f.returns),
                    mask_names(want_args),
                    mask_names(want_rets)
                ))
                .with("half", "static")
                .with("set", "args-returns"),
            );
            return;
        }
    }
    // dead-assignment warnings: exactly the definitions that are not live afterwards
    let ti = TextIndex::new(text);
    let mut warned: BTreeSet<usize> = BTreeSet::new(); // model lines
    let by_src_line: BTreeMap<usize, usize> = rd.map.iter().enumerate().map(|(k, ls)| (ls.line, k)).collect();
    for d in lints.iter().filter(|d| d.code == "dead-assignment") {
        if let Some(li) = by_src_line.get(&ti.line_col(d.range.start.raw).0) {
            warned.insert(*li);
        }
    }
    for nd in &cfg.nodes {
        let i = nd.idx;
        let Some(li) = lk.node_line[i] else { continue };
        let skip_kind = matches!(nd.kind.as_str(), "JumpLink" | "JumpLinkR" | "Csr" | "CsrI" | "FuncEntry" | "ProgramEntry");
        if skip_kind || matches!(m.kind[i], NKind::ToFunction { .. }) {
            continue;
        }
        let Some(d) = &nd.detail else { continue };
        if d.writes == 0 {
            continue;
        }
        if lk.line_nodes[&li].len() != 1 {
            continue;
        }
        ctx.fact("definitions_compared_with_dead_assignment_warnings", 1);
        let dead = d.writes & !1 & rout[i] == 0;
        if dead != warned.contains(&li) {
            out.push(
                Violation::new(format!(
                    "line {} {:?}: value {} afterwards according to the equations, 'unused value' warning {}\n{text}",
                    li + 1,
                    nd.shown,
                    if dead { "is not live" } else { "is live" },
                    if warned.contains(&li) { "given" } else { "not given" }
                ))
                .with("half", "static")
                .with("set", "dead-assignment")
                .with("direction", if dead { "missing" } else { "spurious" }),
            );
            return;
        }
    }
}

/// One activation's executed path: (node idx, registers defined at this step).
struct Frame {
    /// node indices in execution order (the call node stands for the whole callee)
    path: Vec<usize>,
    /// register -> position in `path` of its defining step (None = defined before the frame)
    def_at: [Option<usize>; 32],
    /// argument registers read before written in this activation
    read_before_write: u32,
    written: u32,
    func: Option<usize>,
    /// position in `path` of a call step -> callee function index
    calls: BTreeMap<usize, usize>,
}

#[allow(clippy::too_many_arguments)]
fn note_read(
    fr: &Frame,
    r: u8,
    at: usize,
    cfg: &CfgView,
    entry_node: usize,
    dead_lines: &BTreeSet<usize>,
    lk: &Link,
    ctx: &mut Ctx,
    text: &str,
) -> Option<Violation> {
    if r == 0 {
        return None;
    }
    let bit = 1u32 << r;
    ctx.fact("dynamic_def_use_pairs_checked", 1);
    let def_pos = fr.def_at[r as usize];
    let name = ABI[r as usize];
    let mk = |what: &str, node: usize, msg: String| {
        Some(
            Violation::new(format!(
                "{name} is read at node #{} {:?} (line {}); {msg}\n{text}",
                fr.path[at],
                cfg.nodes[fr.path[at]].shown,
                cfg.nodes[fr.path[at]].range.start.line + 1
            ))
            .with("half", "dynamic")
            .with("set", what)
            .with("direction", "missing")
            .with("node_kind", cfg.nodes[node].kind.clone()),
        )
    };
    // the defining step
    match def_pos {
        Some(p) => {
            let dn = fr.path[p];
            if let Some(f) = fr.calls.get(&p) {
                // the value was left by a callee: it must be one of its inferred return registers
                if ARGS.contains(&r) && cfg.functions[*f].returns & bit == 0 {
                    return mk(
                        "returns",
                        dn,
                        format!(
                            "its value was left by the call to {:?}, whose inferred return registers are {{{}}}",
                            cfg.functions[*f].labels,
                            mask_names(cfg.functions[*f].returns)
                        ),
                    );
                }
            }
            if cfg.nodes[dn].live_out & bit == 0 {
                return mk("out", dn, format!("its value was defined at node #{dn} {:?} (line {}) where it is not live-out", cfg.nodes[dn].shown, cfg.nodes[dn].range.start.line + 1));
            }
            if let Some(li) = lk.node_line[dn] {
                if dead_lines.contains(&li) && cfg.nodes[dn].detail.as_ref().map(|d| d.writes & bit != 0).unwrap_or(false) {
                    return mk("dead-assignment", dn, format!("but the assignment at line {} is reported as an unused value", li + 1));
                }
            }
        }
        None => {
            if cfg.nodes[entry_node].live_out & bit == 0 {
                return mk("out", entry_node, format!("its value comes from before the function, but it is not live-out of the entry node #{entry_node}"));
            }
        }
    }
    let from = def_pos.map(|p| p + 1).unwrap_or(0);
    for k in from..=at {
        let nd = &cfg.nodes[fr.path[k]];
        if nd.live_in & bit == 0 {
            return mk("in", nd.idx, format!("but it is not live-in at node #{} {:?} (line {}) on the executed path from its definition", nd.idx, nd.shown, nd.range.start.line + 1));
        }
        if k < at && nd.live_out & bit == 0 {
            return mk("out", nd.idx, format!("but it is not live-out at node #{} {:?} (line {}) on the executed path from its definition", nd.idx, nd.shown, nd.range.start.line + 1));
        }
    }
    None
}

#[allow(clippy::too_many_arguments)]
fn dynamic_half(
    lines: &[Line],
    flat: &Flat,
    cfg: &CfgView,
    lk: &Link,
    inputs: &[Inputs],
    dead_lines: &BTreeSet<usize>,
    ctx: &mut Ctx,
    text: &str,
) -> Option<Violation> {
    let caller_saved = caller_saved_mask();
    for inp in inputs {
        let mut m = Machine::new(flat, inp, 800);
        let mut frames: Vec<Frame> = vec![Frame {
            path: vec![],
            def_at: [None; 32],
            read_before_write: 0,
            written: 0,
            func: None,
            calls: BTreeMap::new(),
        }];
        let mut entry_nodes: Vec<usize> = vec![0];
        loop {
            let depth = m.acts.len();
            let Some(s) = m.step() else { break };
            let Some(nodes) = lk.line_nodes.get(&s.line) else { break };
            let Line::Ins(ins) = &lines[s.line] else { break };
            let fr_idx = frames.len() - 1;
            let node = nodes[0];
            // reads of this step
            let (mut reads, _) = arch::rw(ins);
            if let Kind::Ecall { num, .. } = s.kind {
                reads = (1 << A7) | ecall_sig(num).map(|(a, _)| mask(a)).unwrap_or(0);
            }
            frames[fr_idx].path.push(node);
            let at = frames[fr_idx].path.len() - 1;
            for r in 1..32u8 {
                if reads & (1 << r) != 0 {
                    if frames[fr_idx].written & (1 << r) == 0 {
                        frames[fr_idx].read_before_write |= 1 << r;
                    }
                    if let Some(v) = note_read(&frames[fr_idx], r, at, cfg, entry_nodes[fr_idx], dead_lines, lk, ctx, text) {
                        return Some(v);
                    }
                }
            }
            if nodes.len() == 2 {
                frames[fr_idx].path.push(nodes[1]);
            }
            let here = frames[fr_idx].path.len() - 1;
            // definitions of this step
            let mut defs = s.write.map(|w| 1u32 << w.0).unwrap_or(0);
            for (r, _) in &s.env_writes {
                defs |= 1 << r;
            }
            if matches!(s.kind, Kind::Ecall { .. }) {
                defs |= caller_saved; // by convention an ecall clobbers the caller-saved registers
            }
            match s.kind {
                Kind::Call { target } => {
                    // the callee runs in its own frame; the call step defines the caller-saved registers
                    frames[fr_idx].written |= caller_saved | (1 << RA);
                    for r in 1..32 {
                        if (caller_saved | (1 << RA)) & (1 << r) != 0 {
                            frames[fr_idx].def_at[r] = Some(here);
                        }
                    }
                    let entry = lk
                        .first_node(flat, target)
                        .and_then(|n0| lk.entry_before.get(&n0).copied());
                    let Some(entry) = entry else {
                        ctx.skip("call_target_without_function_entry");
                        break;
                    };
                    let func = cfg.functions.iter().position(|f| f.entry == entry);
                    frames.push(Frame {
                        path: vec![],
                        def_at: [None; 32],
                        read_before_write: 0,
                        written: 0,
                        func,
                        calls: BTreeMap::new(),
                    });
                    if let Some(f) = func {
                        frames[fr_idx].calls.insert(here, f);
                    }
                    entry_nodes.push(entry);
                    continue;
                }
                Kind::Ret => {
                    if m.acts.len() < depth && frames.len() > 1 {
                        let done = frames.pop().unwrap();
                        entry_nodes.pop();
                        // argument registers the callee read before writing are reads of the call step
                        let fr_idx = frames.len() - 1;
                        let call_pos = frames[fr_idx].path.len() - 1;
                        let arg_reads = done.read_before_write & arg_mask();
                        if let Some(f) = done.func {
                            ctx.fact("callee_argument_reads_checked", 1);
                            if arg_reads & !cfg.functions[f].arguments != 0 {
                                return Some(
                                    Violation::new(format!(
                                        "function {:?} read {{{}}} before writing, inferred arguments are {{{}}}\n{text}",
                                        cfg.functions[f].labels,
                                        mask_names(arg_reads),
                                        mask_names(cfg.functions[f].arguments)
                                    ))
                                    .with("half", "dynamic")
                                    .with("set", "arguments")
                                    .with("direction", "missing"),
                                );
                            }
                        }
                        // the call node "read" those registers: they must have been live up to the call.
                        // (the definition positions of the caller were overwritten at the call; the check
                        // is made against the live-in of the call node itself)
                        let call_node = frames[fr_idx].path[call_pos];
                        if arg_reads & !cfg.nodes[call_node].live_in != 0 {
                            return Some(
                                Violation::new(format!(
                                    "the callee read {{{}}} but only {{{}}} are live-in at the call node #{call_node} {:?}\n{text}",
                                    mask_names(arg_reads),
                                    mask_names(cfg.nodes[call_node].live_in),
                                    cfg.nodes[call_node].shown
                                ))
                                .with("half", "dynamic")
                                .with("set", "in")
                                .with("direction", "missing")
                                .with("node_kind", "call"),
                            );
                        }
                        // remember which function defined the caller-saved registers (for returns())
                        continue;
                    }
                    break;
                }
                _ => {}
            }
            frames[fr_idx].written |= defs;
            for r in 1..32 {
                if defs & (1 << r) != 0 {
                    frames[fr_idx].def_at[r] = Some(here);
                }
            }
            if s.next.is_none() {
                break;
            }
        }
    }
    None
}

impl C02 {
    fn check_case(case: &Case, ctx: &mut Ctx) -> Vec<Violation> {
        let mut out = vec![];
        let rd = render_plain(&case.lines);
        ctx.label(format!("source:{}", case.source));
        if case.calls > 0 {
            ctx.label("calls");
        }
        if case.joins > 0 {
            ctx.label("joins");
        }
        let a = match adapter::analyze(&single(&rd.text), &Default::default()) {
            Ok(a) => a,
            Err(p) => {
                ctx.skip(&format!("c06_panic:{}", p.location()));
                return out;
            }
        };
        if !a.parse_errors.is_empty() {
            ctx.skip("generator_parse_error");
            return out;
        }
        let Some(cfg) = a.cfg else {
            ctx.skip(&format!("no_cfg:{}", a.cfg_error.map(|e| e.code).unwrap_or_default()));
            return out;
        };
        let lk = link(&rd, &case.lines, &cfg);
        if !lk.complete {
            ctx.skip("statement_node_correspondence_incomplete");
            return out;
        }
        ctx.nontrivial = case.calls > 0 && case.joins > 0;
        static_half(&case.lines, &cfg, &lk, &a.lints, &rd, ctx, &mut out);
        if !out.is_empty() {
            return out;
        }
        if !case.inputs.is_empty() {
            let ti = TextIndex::new(&rd.text);
            let by_src_line: BTreeMap<usize, usize> = rd.map.iter().enumerate().map(|(k, ls)| (ls.line, k)).collect();
            let dead_lines: BTreeSet<usize> = a
                .lints
                .iter()
                .filter(|d| d.code == "dead-assignment")
                .filter_map(|d| by_src_line.get(&ti.line_col(d.range.start.raw).0).copied())
                .collect();
            let flat = flatten(&case.lines);
            if let Some(v) = dynamic_half(&case.lines, &flat, &cfg, &lk, &case.inputs, &dead_lines, ctx, &rd.text) {
                out.push(v);
            }
        }
        out
    }
}

fn count_joins(lines: &[Line]) -> usize {
    // labels that are the target of some branch/jump
    let targets: BTreeSet<&String> = lines
        .iter()
        .filter_map(|l| match l {
            Line::Ins(i) => label_operand(i),
            _ => None,
        })
        .collect();
    lines.iter().filter(|l| matches!(l, Line::Label(n) if targets.contains(n))).count()
}

impl Prop for C02 {
    type Case = Case;

    fn gen(ch: &mut Choices, tier: Tier) -> Option<Case> {
        let big = tier == Tier::Thorough;
        let which = ch.weighted(&[4, 3, 2]);
        let (lines, source, calls, dynamic) = match which {
            0 => {
                let o = AbiOpts::all(if big { 4 } else { 3 }, if big { 12 } else { 8 });
                let (l, i) = abi::program(ch, &o);
                (l, "abi", i.calls, true)
            }
            1 => {
                let o = WildOpts {
                    max_funcs: 3,
                    max_blocks: 3,
                    max_body: 4,
                    chaos: false,
                    c03_domain: true,
                    faults: false,
                    data: true,
                };
                let (l, i) = wild::program(ch, &o);
                (l, "wild-structured", i.calls, false)
            }
            _ => {
                let o = WildOpts {
                    max_funcs: 3,
                    max_blocks: 3,
                    max_body: 3,
                    chaos: true,
                    c03_domain: false,
                    faults: false,
                    data: true,
                };
                let (mut l, i) = wild::program(ch, &o);
                if ch.chance(1, 8) {
                    let mixed = ch.chance(1, 2);
                    wild::add_handler(&mut l, ch, "on_interrupt", mixed);
                }
                (l, "wild-chaotic", i.calls, false)
            }
        };
        let inputs = if dynamic {
            (0..if big { 4 } else { 2 }).map(|_| Inputs::from_choices(ch)).collect()
        } else {
            vec![]
        };
        let joins = count_joins(&lines);
        Some(Case {
            lines,
            inputs,
            source: source.to_string(),
            calls,
            joins,
        })
    }

    fn check(case: &Case, ctx: &mut Ctx) -> Vec<Violation> {
        C02::check_case(case, ctx)
    }

    fn show(case: &Case) -> Value {
        json!({"program": render_plain(&case.lines).text, "source": case.source, "executed_input_vectors": case.inputs.len()})
    }
}
