//! C10 — output is deterministic and free of duplicate diagnostics.

use serde::{Deserialize, Serialize};
use serde_json::{json, Value};

use crate::adapter::{self, Diag};
use crate::choice::Choices;
use crate::gen::wild::{self, WildInfo, WildOpts};
use crate::gen::{self, syn};
use crate::model::*;
use crate::runner::{Ctx, Prop, Tier, Violation};

#[derive(Clone, Debug, Serialize, Deserialize)]
pub struct Case {
    pub files: Vec<(String, Vec<Line>)>,
    pub info: WildInfo,
    pub repeats: usize,
}

pub struct C10;

pub fn first_difference(a: &[Diag], b: &[Diag]) -> Option<(String, String)> {
    if a.len() != b.len() {
        return Some(("count".into(), format!("{} vs {} diagnostics", a.len(), b.len())));
    }
    for (k, (x, y)) in a.iter().zip(b.iter()).enumerate() {
        if x != y {
            let field = if x.file != y.file {
                "file-order"
            } else if x.range != y.range {
                "location"
            } else if x.title != y.title {
                "title"
            } else if x.description != y.description {
                "description"
            } else if x.related != y.related {
                "related"
            } else {
                "level"
            };
            return Some((
                field.to_string(),
                format!(
                    "item {k}: ({:?} {:?} {}:{}) vs ({:?} {:?} {}:{})",
                    x.title, x.file, x.range.start.line, x.range.start.col, y.title, y.file, y.range.start.line, y.range.start.col
                ),
            ));
        }
    }
    None
}

impl Prop for C10 {
    type Case = Case;

    fn gen(ch: &mut Choices, tier: Tier) -> Option<Case> {
        let big = tier == Tier::Thorough;
        let (lines, info) = if ch.chance(1, 6) {
            // several findings at one place: a called function that is the first instruction of
            // the program and the target of plain jumps from reachable code (its own body)
            let mut lines = vec![label("helper")];
            lines.extend(crate::gen::syn::plain_ins(ch, &[]));
            let n_jumps = 1 + ch.below(3);
            for k in 0..n_jumps {
                let skip = format!("skip{k}");
                lines.push(ins(ch.pick_str(&crate::gen::syn::BRANCH2), vec![r(crate::gen::syn::any_reg(ch)), Opd::L(skip.clone())]));
                if k == 0 || ch.chance(1, 2) {
                    lines.push(ins("jal", vec![Opd::L("helper".into())]));
                }
                lines.push(ins("j", vec![Opd::L("helper".into())]));
                lines.push(Line::Label(skip));
                lines.extend(crate::gen::syn::plain_ins(ch, &[]));
            }
            lines.push(ins("ret", vec![]));
            (
                lines,
                WildInfo {
                    n_funcs: 1,
                    multi_label_entry: true,
                    ..Default::default()
                },
            )
        } else if ch.chance(2, 3) {
            let o = WildOpts {
                max_funcs: if big { 4 } else { 3 },
                max_blocks: 3,
                max_body: 3,
                chaos: ch.chance(2, 3),
                c03_domain: false,
                faults: ch.chance(1, 4),
                data: true,
            };
            wild::program(ch, &o)
        } else {
            let o = syn::SynOpts {
                max_funcs: 3,
                max_body: 6,
                data: true,
                odd_forms: true,
            };
            let (mut l, si) = syn::program(ch, &o);
            if ch.chance(1, 3) {
                gen::inject_defects(&mut l, ch, 2);
            }
            (
                l,
                WildInfo {
                    n_funcs: si.n_funcs,
                    calls: si.n_calls,
                    ..Default::default()
                },
            )
        };
        let mut files = if ch.chance(1, 2) {
            gen::split_include(&lines, ch, 3)
        } else {
            vec![("main.s".to_string(), lines)]
        };
        if files.len() > 1 && ch.chance(1, 3) {
            // twin lines: the first line of two files jumps to an undefined label
            let k = 1 + ch.below(files.len() - 1);
            files[0].1.insert(0, Line::Ins(Ins::new("j", vec![Opd::L("nowhereA".into())])));
            files[k].1.insert(0, Line::Ins(Ins::new("j", vec![Opd::L("nowhereB".into())])));
        }
        if files.len() > 1 && ch.chance(1, 2) {
            gen::place_in_dirs(&mut files, ch, true);
        }
        Some(Case {
            files,
            info,
            repeats: if big { 12 } else { 6 },
        })
    }

    fn check(case: &Case, ctx: &mut Ctx) -> Vec<Violation> {
        let mut out = vec![];
        let files: adapter::Files = case.files.iter().map(|(n, l)| (n.clone(), render_plain(l).text)).collect();
        let all_text = files.iter().map(|(n, t)| format!("--- {n}\n{t}")).collect::<String>();
        let i = &case.info;
        let shape = if files.len() > 1 {
            "multi-file"
        } else if i.faults.iter().any(|f| f == "several-undefined") || i.faults.len() > 1 {
            "several-label-faults"
        } else if i.multi_label_entry {
            "several-labels-on-entry"
        } else if i.multi_return {
            "multiple-returns"
        } else if i.cross_region || i.fallthrough_into_function {
            "shared-code"
        } else {
            "plain"
        };
        ctx.label(format!("shape:{shape}"));
        let first = match adapter::run_entry(&files, &[]) {
            Ok(d) => d,
            Err(p) => {
                ctx.skip(&format!("c06_panic:{}", p.location()));
                return out;
            }
        };
        ctx.nontrivial = first.len() >= 2 && shape != "plain";
        if first.len() >= 2 {
            ctx.label("two-or-more-diagnostics");
        }
        // no duplicates within one run
        ctx.fact("runs_checked_for_duplicates", 1);
        for (k, d) in first.iter().enumerate() {
            if first[..k].contains(d) {
                out.push(
                    Violation::new(format!(
                        "diagnostic reported more than once: {:?} in {:?} at line {} col {}..{}\n{all_text}",
                        d.title,
                        d.file,
                        d.range.start.line + 1,
                        d.range.start.col + 1,
                        d.range.end.col + 1
                    ))
                    .with("what", "duplicate")
                    .with("title", d.title.split(':').next().unwrap_or("").to_string())
                    .with("shape", shape),
                );
                break;
            }
        }
        // identical output across fresh runs (new uuids, new hasher keys each time)
        for _ in 1..case.repeats.max(2) {
            match adapter::run_entry(&files, &[]) {
                Ok(d) => {
                    ctx.fact("run_pairs_compared", 1);
                    if let Some((field, desc)) = first_difference(&first, &d) {
                        out.push(
                            Violation::new(format!("two runs on the same files differ: {desc}\n{all_text}"))
                                .with("what", "nondeterministic")
                                .with("field", field)
                                .with("shape", shape),
                        );
                        break;
                    }
                }
                Err(p) => {
                    ctx.skip(&format!("c06_panic:{}", p.location()));
                    break;
                }
            }
        }
        out
    }

    fn show(case: &Case) -> Value {
        json!({"files": case.files.iter().map(|(n, l)| (n.clone(), render_plain(l).text)).collect::<Vec<_>>(), "features": case.info})
    }
}
