//! C04 — convention-conforming programs produce no diagnostics.

use serde::{Deserialize, Serialize};
use serde_json::{json, Value};

use crate::adapter::{self, single};
use crate::choice::Choices;
use crate::gen::clean::{self, CleanInfo, CleanOpts};
use crate::machine::Inputs;
use crate::model::*;
use crate::monitor;
use crate::runner::{Ctx, Prop, Tier, Violation};

#[derive(Clone, Debug, Serialize, Deserialize)]
pub struct Case {
    pub lines: Vec<Line>,
    pub style: Vec<u32>,
    pub style_opts: StyleOpts,
    pub inputs: Vec<Inputs>,
    pub info: CleanInfo,
}

pub struct C04;

pub fn label_case(info: &CleanInfo, ctx: &mut Ctx) -> bool {
    let nf = info.funcs.len();
    if nf >= 2 {
        ctx.label("two-or-more-functions");
    }
    if info.frames_with_saved > 0 {
        ctx.label("frame-with-saved-register");
    }
    if info.n_loops > 0 {
        ctx.label("loop");
    }
    if info.n_branches > 0 {
        ctx.label("branch");
    }
    if info.call_in_loop {
        ctx.label("call-in-loop");
    }
    if info.recursion {
        ctx.label("recursion");
    }
    if info.early_returns > 0 {
        ctx.label("early-return");
    }
    nf >= 2 && info.frames_with_saved > 0 && (info.n_loops > 0 || info.n_branches > 0) && (info.call_in_loop || info.recursion || info.n_calls >= 2)
}

impl Prop for C04 {
    type Case = Case;

    fn gen(ch: &mut Choices, tier: Tier) -> Option<Case> {
        let big = tier == Tier::Thorough;
        let o = CleanOpts::all(if big { 5 } else { 3 }, if big { 10 } else { 6 });
        let (lines, info) = clean::program(ch, &o);
        let inputs: Vec<Inputs> = (0..3).map(|_| Inputs::from_choices(ch)).collect();
        let style: Vec<u32> = (0..(lines.len() * 6).min(600)).map(|_| ch.raw()).collect();
        let mut style_opts = StyleOpts::all();
        style_opts.no_final_newline = ch.chance(1, 2);
        Some(Case {
            lines,
            style,
            style_opts,
            inputs,
            info,
        })
    }

    fn check(case: &Case, ctx: &mut Ctx) -> Vec<Violation> {
        ctx.nontrivial = label_case(&case.info, ctx);
        // the dynamic monitor must accept the program, otherwise the generator is wrong
        for inp in &case.inputs {
            let rep = monitor::run(&case.lines, inp, 3000);
            ctx.fact("monitored_executions", 1);
            ctx.fact("monitored_steps", rep.steps);
            if let Some(c) = rep.complaint {
                ctx.skip(&format!("generator_reject:monitor:{}", c.kind));
                return vec![];
            }
        }
        let rd = render(&case.lines, &mut Choices::new(&case.style), &case.style_opts);
        let lint = match adapter::lint(&single(&rd.text)) {
            Ok(l) => l,
            Err(p) => {
                ctx.skip(&format!("c06_panic:{}", p.location()));
                return vec![];
            }
        };
        ctx.fact("programs_linted", 1);
        if lint.diags.is_empty() {
            return vec![];
        }
        let mut codes: Vec<String> = lint.diags.iter().map(|d| d.code.clone()).collect();
        codes.sort();
        codes.dedup();
        let ti = TextIndex::new(&rd.text);
        let listing: Vec<String> = lint
            .diags
            .iter()
            .map(|d| {
                format!(
                    "{} ({}) at line {} col {}: {:?}",
                    d.code,
                    d.title,
                    d.range.start.line + 1,
                    d.range.start.col + 1,
                    ti.line_text(d.range.start.line.min(ti.n_lines() - 1)).trim()
                )
            })
            .collect();
        vec![Violation::new(format!(
            "conforming program (accepted by the convention monitor on {} executions) got diagnostics:\n  {}\n{}",
            case.inputs.len(),
            listing.join("\n  "),
            rd.text
        ))
        .with("codes", codes.join(","))]
    }

    fn show(case: &Case) -> Value {
        let rd = render(&case.lines, &mut Choices::new(&case.style), &case.style_opts);
        json!({"program": rd.text, "functions": case.info.funcs.iter().map(|f| json!({"name": f.name, "arity": f.arity, "result": f.has_result, "leaf": f.leaf, "frame": f.frame, "saved": f.saved})).collect::<Vec<_>>()})
    }
}
