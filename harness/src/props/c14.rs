//! C14 — renaming labels or same-class registers only renames the diagnostics.

use std::collections::BTreeMap;

use serde::{Deserialize, Serialize};
use serde_json::{json, Value};

use crate::adapter::{self, single};
use crate::choice::Choices;
use crate::model::*;
use crate::props::c13::{self, locate};
use crate::runner::{Ctx, Prop, Tier, Violation};

#[derive(Clone, Debug, Serialize, Deserialize)]
pub struct Case {
    pub lines: Vec<Line>,
    /// register permutation (index = old register, value = new register)
    pub perm: Vec<u8>,
    pub labels: BTreeMap<String, String>,
    pub source: String,
}

pub struct C14;

fn rename(lines: &[Line], perm: &[u8], labels: &BTreeMap<String, String>) -> Vec<Line> {
    let lab = |s: &String| labels.get(s).cloned().unwrap_or_else(|| s.clone());
    let op = |o: &Opd| match o {
        Opd::R(x) => Opd::R(perm[*x as usize]),
        Opd::M(k, b) => Opd::M(*k, perm[*b as usize]),
        Opd::L(s) => Opd::L(lab(s)),
        o => o.clone(),
    };
    lines
        .iter()
        .map(|l| match l {
            Line::Label(s) => Line::Label(lab(s)),
            Line::Ins(i) => Line::Ins(Ins {
                mn: i.mn.clone(),
                ops: i.ops.iter().map(op).collect(),
            }),
            l => l.clone(),
        })
        .collect()
}

impl Prop for C14 {
    type Case = Case;

    fn gen(ch: &mut Choices, tier: Tier) -> Option<Case> {
        let base = <c13::C13 as Prop>::gen(ch, tier)?;
        // permutation of the temporaries among themselves and of the saved registers among themselves
        let mut perm: Vec<u8> = (0..32).collect();
        for class in [&TEMPS[..], &SAVED[..]] {
            let mut image: Vec<u8> = class.to_vec();
            for j in (1..image.len()).rev() {
                let q = ch.below(j + 1);
                image.swap(j, q);
            }
            for (k, r) in class.iter().enumerate() {
                perm[*r as usize] = image[k];
            }
        }
        // injective label renaming to fresh valid identifiers
        let mut labels = BTreeMap::new();
        let mut n = 0;
        // every label name of the program: defined ones and names that are only used (undefined labels)
        let mut names: Vec<String> = vec![];
        for l in &base.lines {
            match l {
                Line::Label(s) => names.push(s.clone()),
                Line::Ins(i) => {
                    for o in &i.ops {
                        if let Opd::L(s) = o {
                            names.push(s.clone());
                        }
                    }
                }
                _ => {}
            }
        }
        for s in &names {
            {
                if !labels.contains_key(s) && ch.chance(2, 3) {
                    n += 1;
                    let new = match ch.below(7) {
                        0 => format!("L{n}"),
                        // upper-case look-alikes of register names are ordinary labels
                        6 if n % 2 == 0 => format!("{}{n}", ["T", "S", "A", "X"][(n / 2) % 4]),
                        // lower-case with a zero-padded index: not a register name either
                        6 => format!("{}0{n}", ["t", "s", "a", "x"][(n / 2) % 4]),
                        4 => format!("__{s}"),
                        5 => format!("__x{n}__"),
                        1 => format!("_{}_{n}", s.to_uppercase()),
                        2 => format!("z{n}_x"),
                        _ => format!("{}{}", "q".repeat(1 + n % 3), n * 7),
                    };
                    labels.insert(s.clone(), new);
                }
            }
        }
        Some(Case {
            lines: base.lines,
            perm,
            labels,
            source: base.source,
        })
    }

    fn check(case: &Case, ctx: &mut Ctx) -> Vec<Violation> {
        ctx.label(format!("source:{}", case.source));
        let renamed = rename(&case.lines, &case.perm, &case.labels);
        let rd_a = render_plain(&case.lines);
        let rd_b = render_plain(&renamed);
        let (la, lb) = match (adapter::lint(&single(&rd_a.text)), adapter::lint(&single(&rd_b.text))) {
            (Ok(a), Ok(b)) => (a, b),
            _ => {
                ctx.skip("c06_panic");
                return vec![];
            }
        };
        ctx.fact("program_pairs_compared", 1);
        let (a, b) = match (locate(&la.diags, &rd_a, &case.lines), locate(&lb.diags, &rd_b, &renamed)) {
            (Ok(a), Ok(b)) => (a, b),
            _ => {
                ctx.skip("unlocatable_diagnostic");
                return vec![];
            }
        };
        let moved_regs = (0..32).filter(|r| case.perm[*r] != *r as u8).count();
        ctx.nontrivial = (!a.is_empty() && moved_regs > 0) || case.labels.len() >= 3;
        if !a.is_empty() {
            ctx.label("base-has-diagnostics");
        }
        if a == b {
            // the registers the operand diagnostics designate are mapped through the permutation
            let ta = TextIndex::new(&rd_a.text);
            let tb = TextIndex::new(&rd_b.text);
            let mut ra: Vec<(String, usize, Option<u8>)> = la
                .diags
                .iter()
                .filter(|d| !d.file.is_empty())
                .map(|d| {
                    let s = ta.slice(d.range.start.raw, d.range.end.raw + 1);
                    (d.code.clone(), d.range.start.line, reg_from_name(&s).map(|r| case.perm[r as usize]))
                })
                .collect();
            let mut rb: Vec<(String, usize, Option<u8>)> = lb
                .diags
                .iter()
                .filter(|d| !d.file.is_empty())
                .map(|d| {
                    let s = tb.slice(d.range.start.raw, d.range.end.raw + 1);
                    (d.code.clone(), d.range.start.line, reg_from_name(&s))
                })
                .collect();
            ra.sort();
            rb.sort();
            ctx.fact("register_operands_compared", ra.len() as u64);
            if ra == rb {
                return vec![];
            }
            return vec![Violation::new(format!(
                "after renaming, diagnostics designate different registers: {:?} vs {:?}\n--- original\n{}\n--- renamed\n{}",
                ra, rb, rd_a.text, rd_b.text
            ))
            .with("kind", "register-operand")];
        }
        let only_a: Vec<_> = a.iter().filter(|x| !b.contains(x)).collect();
        let only_b: Vec<_> = b.iter().filter(|x| !a.contains(x)).collect();
        let first = only_a.first().or(only_b.first()).unwrap();
        vec![Violation::new(format!(
            "renaming (labels {:?}, registers {:?}) changed the diagnostics\n only for the original: {:?}\n only for the renamed: {:?}\n--- original\n{}\n--- renamed\n{}",
            case.labels,
            (0..32).filter(|r| case.perm[*r] != *r as u8).map(|r| format!("{}->{}", ABI[r], ABI[case.perm[r] as usize])).collect::<Vec<_>>(),
            only_a,
            only_b,
            rd_a.text,
            rd_b.text
        ))
        .with("kind", if moved_regs > 0 { "registers-or-labels" } else { "labels" })
        .with("code", first.0.clone())]
    }

    fn show(case: &Case) -> Value {
        json!({"program": render_plain(&case.lines).text, "label_renaming": case.labels, "register_permutation": (0..32).filter(|r| case.perm[*r] != *r as u8).map(|r| format!("{}->{}", ABI[r], ABI[case.perm[r] as usize])).collect::<Vec<_>>()})
    }
}
