//! C11 — functions are exactly the call targets and their bodies are what they reach.

use std::collections::{BTreeMap, BTreeSet};

use serde::{Deserialize, Serialize};
use serde_json::{json, Value};

use crate::adapter::{self, single, CfgView};
use crate::choice::Choices;
use crate::gen::wild::{self, WildInfo, WildOpts};
use crate::link::link;
use crate::model::*;
use crate::props::c03::{is_call, is_source_ret, label_operand};
use crate::runner::{Ctx, Prop, Tier, Violation};

#[derive(Clone, Debug, Serialize, Deserialize)]
pub struct Case {
    pub lines: Vec<Line>,
    pub info: WildInfo,
    pub repeats: usize,
}

pub struct C11;

fn reach(cfg: &CfgView, from: usize) -> BTreeSet<usize> {
    let mut seen = BTreeSet::new();
    let mut stack = vec![from];
    while let Some(n) = stack.pop() {
        if seen.insert(n) {
            stack.extend(cfg.nodes[n].nexts.iter().copied());
        }
    }
    seen
}

impl C11 {
    fn check_once(case: &Case, ctx: &mut Ctx) -> Vec<Violation> {
        let mut out = vec![];
        let rd = render_plain(&case.lines);
        let text = &rd.text;
        let a = match adapter::analyze(&single(text), &Default::default()) {
            Ok(a) => a,
            Err(p) => {
                ctx.skip(&format!("c06_panic:{}", p.location()));
                return out;
            }
        };
        let Some(cfg) = a.cfg else {
            ctx.skip(&format!("no_cfg:{}", a.cfg_error.map(|e| e.code).unwrap_or_default()));
            return out;
        };
        let lk = link(&rd, &case.lines, &cfg);
        if !lk.complete {
            ctx.skip("statement_node_correspondence_incomplete");
            return out;
        }
        // call targets according to the text, and the labels installed as interrupt handlers
        // (`la r, L` directly followed by a write of r to utvec): the documented way a label
        // becomes a function without being called
        let mut called: BTreeSet<String> = case
            .lines
            .iter()
            .filter_map(|l| match l {
                Line::Ins(i) if is_call(i) => label_operand(i).cloned(),
                _ => None,
            })
            .collect();
        for w in case.lines.windows(2) {
            if let (Line::Ins(a), Line::Ins(b)) = (&w[0], &w[1]) {
                if a.mn == "la" && b.mn == "csrrw" && b.ops.get(1) == Some(&Opd::C("utvec".into())) && b.ops.get(2) == a.ops.first() {
                    if let Some(Opd::L(l)) = a.ops.get(1) {
                        called.insert(l.clone());
                        ctx.label("interrupt-handler");
                    }
                }
            }
        }
        // label -> node carrying it
        let mut label_node: BTreeMap<String, usize> = BTreeMap::new();
        for n in &cfg.nodes {
            for l in &n.labels {
                label_node.insert(l.clone(), n.idx);
            }
        }
        // a called label that the text defines in front of an instruction must stand on some node
        for l in &called {
            let defined_before_code = case.lines.iter().enumerate().any(|(k, x)| {
                matches!(x, Line::Label(n) if n == l) && case.lines[k + 1..].iter().any(|y| matches!(y, Line::Ins(_)))
            });
            if defined_before_code && !label_node.contains_key(l) {
                out.push(
                    Violation::new(format!("the called label {l} is defined in front of code but stands on no node of the graph\n{text}"))
                        .with("clause", "function-set")
                        .with("what", "called-label-on-no-node"),
                );
                return out;
            }
        }
        let want_entries: BTreeSet<usize> = called.iter().filter_map(|l| label_node.get(l).copied()).collect();
        let got_entries: BTreeSet<usize> = cfg.functions.iter().map(|f| f.entry).collect();
        ctx.fact("function_sets_compared", 1);
        if want_entries != got_entries {
            out.push(
                Violation::new(format!(
                    "functions are {:?} but the labels named by calls are {:?} (entry nodes {:?} vs {:?})\n{text}",
                    cfg.function_labels.keys().collect::<Vec<_>>(),
                    called,
                    got_entries,
                    want_entries
                ))
                .with("clause", "function-set"),
            );
            return out;
        }
        // every function label maps to a function whose entry carries it; called labels are keys
        for l in &called {
            if label_node.contains_key(l) && !cfg.function_labels.contains_key(l) {
                out.push(Violation::new(format!("called label {l} is not a key of the function map\n{text}")).with("clause", "function-set"));
            }
        }
        // every label that stands on the entry of a function is a name of that function
        for (fi, f) in cfg.functions.iter().enumerate() {
            for l in &cfg.nodes[f.entry].labels {
                if cfg.function_labels.get(l) != Some(&fi) {
                    out.push(
                        Violation::new(format!("label {l} stands on the entry of function {:?} but the function map has {:?} for it\n{text}", f.labels, cfg.function_labels.get(l)))
                            .with("clause", "function-set")
                            .with("what", "entry-label-not-a-name"),
                    );
                }
            }
        }
        let reaches: Vec<BTreeSet<usize>> = cfg.functions.iter().map(|f| reach(&cfg, f.entry)).collect();
        for (fi, f) in cfg.functions.iter().enumerate() {
            ctx.fact("function_bodies_compared", 1);
            let got: BTreeSet<usize> = f.nodes.iter().copied().collect();
            if got != reaches[fi] {
                let missing: Vec<_> = reaches[fi].difference(&got).collect();
                let extra: Vec<_> = got.difference(&reaches[fi]).collect();
                out.push(
                    Violation::new(format!(
                        "function {:?}: attributed nodes differ from the nodes reachable from its entry: missing {:?}, extra {:?}\n{text}",
                        f.labels, missing, extra
                    ))
                    .with("clause", "body")
                    .with("direction", if !missing.is_empty() { "missing" } else { "extra" }),
                );
            }
            if f.nodes.len() != got.len() {
                ctx.fact("functions_with_duplicate_node_entries", 1);
            }
            // exit
            if !reaches[fi].contains(&f.exit) {
                out.push(Violation::new(format!("function {:?}: exit #{} is not reachable from its entry\n{text}", f.labels, f.exit)).with("clause", "exit-not-reached"));
            } else if !cfg.nodes[f.exit].is_return {
                out.push(Violation::new(format!("function {:?}: exit #{} {:?} is not a return\n{text}", f.labels, f.exit, cfg.nodes[f.exit].shown)).with("clause", "exit-not-return"));
            }
        }
        // ownership lists
        let mut shared = false;
        for n in &cfg.nodes {
            let want: Vec<usize> = (0..cfg.functions.len()).filter(|fi| reaches[*fi].contains(&n.idx)).collect();
            ctx.fact("ownership_lists_compared", 1);
            if want.len() >= 2 {
                shared = true;
            }
            if want != n.funcs {
                out.push(
                    Violation::new(format!(
                        "node #{} {:?}: owning functions {:?} but it is reachable from the entries of {:?}\n{text}",
                        n.idx,
                        n.shown,
                        n.funcs.iter().map(|f| cfg.functions.get(*f).map(|x| x.labels.clone())).collect::<Vec<_>>(),
                        want.iter().map(|f| cfg.functions[*f].labels.clone()).collect::<Vec<_>>()
                    ))
                    .with("clause", "ownership"),
                );
                break;
            }
        }
        // every other return of a (non-overlapping) function leads to its exit
        for n in &cfg.nodes {
            let Some(li) = lk.node_line[n.idx] else { continue };
            let Line::Ins(i) = &case.lines[li] else { continue };
            if !is_source_ret(i) {
                continue;
            }
            let owners: Vec<usize> = (0..cfg.functions.len()).filter(|fi| reaches[*fi].contains(&n.idx)).collect();
            if owners.len() != 1 {
                continue;
            }
            let f = &cfg.functions[owners[0]];
            ctx.fact("returns_checked", 1);
            if n.idx != f.exit && n.nexts != vec![f.exit] {
                out.push(
                    Violation::new(format!(
                        "function {:?}: return #{} (line {}) does not lead to the exit #{} (successors {:?})\n{text}",
                        f.labels,
                        n.idx,
                        li + 1,
                        f.exit,
                        n.nexts
                    ))
                    .with("clause", "return-not-merged"),
                );
            }
        }
        // sharing is reported exactly when it exists
        let reported = a.lints.iter().any(|d| d.code == "node-in-many-functions");
        ctx.fact("sharing_reports_compared", 1);
        if shared {
            ctx.label("has-shared-node");
        }
        if shared != reported {
            let entry_shared = cfg.nodes.iter().any(|n| n.is_func_entry && n.funcs.len() >= 2);
            out.push(
                Violation::new(format!(
                    "instructions are shared between functions: {shared}; reported by a diagnostic: {reported}\n{text}"
                ))
                .with("clause", "sharing-report")
                .with("direction", if shared { "missing" } else { "spurious" })
                .with("shared_function_entry", entry_shared.to_string()),
            );
        }
        out
    }
}

impl Prop for C11 {
    type Case = Case;

    fn gen(ch: &mut Choices, tier: Tier) -> Option<Case> {
        let big = tier == Tier::Thorough;
        let o = WildOpts {
            max_funcs: if big { 5 } else { 3 },
            max_blocks: if big { 5 } else { 3 },
            max_body: 3,
            chaos: ch.chance(3, 4),
            c03_domain: false,
            faults: false,
            data: false,
        };
        let (mut lines, info) = wild::program(ch, &o);
        if ch.chance(1, 8) {
            let mixed = ch.chance(2, 3);
            wild::add_handler(&mut lines, ch, "on_interrupt", mixed);
        }
        Some(Case {
            lines,
            info,
            repeats: 3,
        })
    }

    fn check(case: &Case, ctx: &mut Ctx) -> Vec<Violation> {
        let i = &case.info;
        for (on, name) in [
            (i.multi_return, "multiple-returns"),
            (i.cross_region, "cross-region-jump"),
            (i.multi_label_entry, "several-labels-on-entry"),
            (i.fallthrough_into_function, "fallthrough-into-function"),
            (i.call_to_nonfunction_label, "call-to-inner-label"),
            (i.dead_block, "dead-block"),
            (i.recursion, "recursion"),
        ] {
            if on {
                ctx.label(name);
            }
        }
        ctx.nontrivial = i.n_funcs >= 2
            && (i.multi_return || i.cross_region || i.multi_label_entry || i.fallthrough_into_function || i.dead_block);
        for _ in 0..case.repeats.max(1) {
            let v = C11::check_once(case, ctx);
            if !v.is_empty() {
                let mut v = v;
                v.truncate(3);
                return v;
            }
        }
        vec![]
    }

    fn show(case: &Case) -> Value {
        json!({"program": render_plain(&case.lines).text, "features": case.info})
    }
}
