//! Reference tokenizer for token *boundaries*, written from the documented
//! token classes (not from the analyzer's lexer code): blanks are space, tab,
//! carriage return and comma; `(`, `)` and newline are single-character
//! tokens; `#` starts a comment that runs to the end of the line; `"`/`'`
//! start literals that end at the matching quote on the same line (backslash
//! escapes the next character); `.` followed by letters is a directive; a
//! run of letters, digits, `_` and `-` is a symbol, and a symbol directly
//! followed by `:` is a label; any other character is a one-character
//! unknown token.

use serde::{Deserialize, Serialize};

#[derive(Clone, Debug, PartialEq, Eq, Serialize, Deserialize)]
pub struct RTok {
    pub kind: &'static str,
    pub start: usize,
    /// exclusive
    pub end: usize,
    pub line: usize,
    pub col: usize,
}

pub fn is_blank(c: char) -> bool {
    c == ' ' || c == '\t' || c == ',' || c == '\r'
}
fn is_sym(c: char) -> bool {
    c.is_ascii_alphanumeric() || c == '_' || c == '-'
}
fn is_sym_alpha(c: char) -> bool {
    c.is_ascii_alphabetic() || c == '_' || c == '-'
}

pub fn tokenize(chars: &[char]) -> Vec<RTok> {
    let mut out = vec![];
    let n = chars.len();
    let mut i = 0;
    let mut line = 0;
    let mut line_start = 0;
    while i < n {
        let c = chars[i];
        if is_blank(c) {
            i += 1;
            continue;
        }
        let start = i;
        let col = i - line_start;
        let kind;
        match c {
            '\n' => {
                kind = "newline";
                i += 1;
            }
            '(' => {
                kind = "lparen";
                i += 1;
            }
            ')' => {
                kind = "rparen";
                i += 1;
            }
            '#' => {
                kind = "comment";
                while i < n && chars[i] != '\n' {
                    i += 1;
                }
            }
            '"' | '\'' => {
                kind = if c == '"' { "string" } else { "char" };
                i += 1;
                let mut closed = false;
                let mut well_formed = true;
                let mut n_items = 0;
                while i < n && chars[i] != '\n' {
                    if chars[i] == '\\' {
                        // documented escapes: \\ \' \" n t r b f 0 uXXXX
                        match chars.get(i + 1) {
                            Some('\\' | '\'' | '"' | 'n' | 't' | 'r' | 'b' | 'f' | '0') => i += 2,
                            Some('u')
                                if i + 5 < n
                                    && chars[i + 2..i + 6].iter().all(|h| h.is_ascii_hexdigit())
                                    && u32::from_str_radix(
                                        &chars[i + 2..i + 6].iter().collect::<String>(),
                                        16,
                                    )
                                    .ok()
                                    .and_then(char::from_u32)
                                    .is_some() =>
                            {
                                i += 6
                            }
                            Some('\n') | None => {
                                well_formed = false;
                                i += 1;
                            }
                            Some(_) => {
                                well_formed = false;
                                i += 2;
                            }
                        }
                        n_items += 1;
                        continue;
                    }
                    if chars[i] == c {
                        i += 1;
                        closed = true;
                        break;
                    }
                    n_items += 1;
                    i += 1;
                }
                if c == '\'' && n_items != 1 {
                    well_formed = false;
                }
                if !closed || !well_formed {
                    // malformed literal: boundaries are not defined by the documentation
                    out.push(RTok {
                        kind: "badliteral",
                        start,
                        end: i,
                        line,
                        col,
                    });
                    continue;
                }
            }
            '.' => {
                i += 1;
                while i < n && is_sym_alpha(chars[i]) {
                    i += 1;
                }
                kind = if i - start == 1 { "unknown" } else { "directive" };
            }
            c if is_sym(c) => {
                while i < n && is_sym(chars[i]) {
                    i += 1;
                }
                if i < n && chars[i] == ':' {
                    i += 1;
                    kind = "label";
                } else {
                    kind = "symbol";
                }
            }
            _ => {
                kind = "unknown";
                i += 1;
            }
        }
        out.push(RTok {
            kind,
            start,
            end: i,
            line,
            col,
        });
        if c == '\n' {
            line += 1;
            line_start = i;
        }
    }
    out
}

#[cfg(test)]
mod tests {
    use super::*;
    #[test]
    fn basic() {
        let t: Vec<char> = "a: add x1,x2 , 4(sp) # c\n.word 1\n\"s # x\" 'c' @".chars().collect();
        let toks = tokenize(&t);
        let kinds: Vec<&str> = toks.iter().map(|t| t.kind).collect();
        assert_eq!(
            kinds,
            vec![
                "label", "symbol", "symbol", "symbol", "symbol", "lparen", "symbol", "rparen",
                "comment", "newline", "directive", "symbol", "newline", "string", "char",
                "unknown"
            ]
        );
        assert_eq!(toks[10].line, 1);
        assert_eq!(toks[13].line, 2);
        assert_eq!(toks[13].col, 0);
    }
}
