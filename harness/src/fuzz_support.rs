//! Small helpers for the cargo-fuzz targets.

use std::sync::OnceLock;

use crate::adapter::{self, Files};
use crate::runner::{Entry, Findings};

/// `RVParser::run` without catch_unwind: a panic aborts the fuzz target and is kept as a crash.
pub fn unguarded_run(files: &Files) -> usize {
    match adapter::run_entry(files, &[]) {
        Ok(d) => d.len(),
        Err(p) => panic!("C06: the library entry point panicked: {}", p.message),
    }
}

pub fn registry() -> &'static Vec<Entry> {
    static R: OnceLock<Vec<Entry>> = OnceLock::new();
    R.get_or_init(crate::props::registry)
}

pub fn findings() -> &'static Findings {
    static F: OnceLock<Findings> = OnceLock::new();
    F.get_or_init(crate::runner::load_findings)
}
