//! Symbolic program model, renderer with surface `Style`, and source map.
//!
//! Nothing in here names an analyzer type. Offsets are *character* offsets
//! (the analyzer lexes a `Vec<char>`); generated programs keep non-ASCII
//! characters inside comments and strings only.

use crate::choice::Choices;
use serde::{Deserialize, Serialize};

pub const ABI: [&str; 32] = [
    "zero", "ra", "sp", "gp", "tp", "t0", "t1", "t2", "s0", "s1", "a0", "a1", "a2", "a3", "a4",
    "a5", "a6", "a7", "s2", "s3", "s4", "s5", "s6", "s7", "s8", "s9", "s10", "s11", "t3", "t4",
    "t5", "t6",
];

pub const ZERO: u8 = 0;
pub const RA: u8 = 1;
pub const SP: u8 = 2;
pub const A0: u8 = 10;
pub const A7: u8 = 17;
pub const TEMPS: [u8; 7] = [5, 6, 7, 28, 29, 30, 31];
pub const SAVED: [u8; 12] = [8, 9, 18, 19, 20, 21, 22, 23, 24, 25, 26, 27];
pub const ARGS: [u8; 8] = [10, 11, 12, 13, 14, 15, 16, 17];

pub fn reg_from_name(s: &str) -> Option<u8> {
    if let Some(i) = ABI.iter().position(|n| *n == s) {
        return Some(i as u8);
    }
    if s == "fp" {
        return Some(8);
    }
    if let Some(n) = s.strip_prefix('x') {
        if let Ok(v) = n.parse::<u8>() {
            if v < 32 && n == v.to_string() {
                return Some(v);
            }
        }
    }
    None
}

pub fn mask(regs: &[u8]) -> u32 {
    regs.iter().fold(0, |m, r| m | (1u32 << r))
}
pub fn caller_saved_mask() -> u32 {
    mask(&TEMPS) | mask(&ARGS)
}
pub fn callee_saved_mask() -> u32 {
    mask(&SAVED) | mask(&[SP, RA])
}
pub fn mask_names(m: u32) -> String {
    (0..32)
        .filter(|r| m & (1 << r) != 0)
        .map(|r| ABI[r as usize])
        .collect::<Vec<_>>()
        .join(",")
}

#[derive(Clone, Debug, PartialEq, Eq, Hash, Serialize, Deserialize)]
pub enum Opd {
    /// register
    R(u8),
    /// immediate, mathematical value
    I(i64),
    /// label reference
    L(String),
    /// `off(base)`
    M(i64, u8),
    /// CSR operand as written (name or number)
    C(String),
    /// string literal (unescaped content; only printable ASCII without quote/backslash is generated)
    S(String),
    /// verbatim operand text (used by the hostile-text generators)
    V(String),
}

#[derive(Clone, Debug, PartialEq, Eq, Hash, Serialize, Deserialize)]
pub struct Ins {
    pub mn: String,
    pub ops: Vec<Opd>,
}

impl Ins {
    pub fn new(mn: &str, ops: Vec<Opd>) -> Ins {
        Ins {
            mn: mn.to_string(),
            ops,
        }
    }
}

#[derive(Clone, Debug, PartialEq, Eq, Hash, Serialize, Deserialize)]
pub enum Line {
    Label(String),
    Ins(Ins),
    /// directive name including the dot, operands
    Dir(String, Vec<Opd>),
    Comment(String),
    Blank,
    /// verbatim line (no trailing newline)
    Raw(String),
}

pub fn ins(mn: &str, ops: Vec<Opd>) -> Line {
    Line::Ins(Ins::new(mn, ops))
}
pub fn label(s: &str) -> Line {
    Line::Label(s.to_string())
}
pub fn r(x: u8) -> Opd {
    Opd::R(x)
}
pub fn i(x: i64) -> Opd {
    Opd::I(x)
}
pub fn l(s: &str) -> Opd {
    Opd::L(s.to_string())
}
pub fn m(off: i64, base: u8) -> Opd {
    Opd::M(off, base)
}

/// Which surface freedoms the renderer may use.
#[derive(Clone, Debug, Serialize, Deserialize)]
pub struct StyleOpts {
    pub indent: bool,
    pub seps: bool,
    pub mn_case: bool,
    pub reg_spelling: bool,
    pub radix: bool,
    pub char_imm: bool,
    pub inline_labels: bool,
    pub comments: bool,
    pub blanks: bool,
    pub omit_zero_off: bool,
    pub no_final_newline: bool,
    pub leading_blank: bool,
}

impl StyleOpts {
    pub fn none() -> Self {
        StyleOpts {
            indent: false,
            seps: false,
            mn_case: false,
            reg_spelling: false,
            radix: false,
            char_imm: false,
            inline_labels: false,
            comments: false,
            blanks: false,
            omit_zero_off: false,
            no_final_newline: false,
            leading_blank: false,
        }
    }
    pub fn all() -> Self {
        StyleOpts {
            indent: true,
            seps: true,
            mn_case: true,
            reg_spelling: true,
            radix: true,
            char_imm: true,
            inline_labels: true,
            comments: true,
            blanks: true,
            omit_zero_off: true,
            no_final_newline: true,
            leading_blank: true,
        }
    }
}

pub type Span = (usize, usize); // [start, end) in chars

#[derive(Clone, Debug, Default, Serialize, Deserialize)]
pub struct OpSpan {
    pub whole: Span,
    pub reg: Option<Span>,
    pub imm: Option<Span>,
}

#[derive(Clone, Debug, Default, Serialize, Deserialize)]
pub struct LineSpan {
    /// zero-based source line the statement is on
    pub line: usize,
    /// the whole statement: mnemonic (or label / directive) through last operand
    pub stmt: Span,
    pub head: Span,
    pub ops: Vec<OpSpan>,
}

#[derive(Clone, Debug, Default, Serialize, Deserialize)]
pub struct Rendered {
    pub text: String,
    /// one entry per model line (Blank/Comment/Raw get a zero-width stmt at their line start)
    pub map: Vec<LineSpan>,
    /// number of style sites where a non-canonical alternative was chosen
    pub style_sites: usize,
}

struct Out {
    chars: usize,
    line: usize,
    text: String,
}
impl Out {
    fn push(&mut self, s: &str) {
        for c in s.chars() {
            if c == '\n' {
                self.line += 1;
            }
            self.chars += 1;
        }
        self.text.push_str(s);
    }
}

pub fn fmt_imm_dec(v: i64) -> String {
    v.to_string()
}

fn fmt_imm(v: i64, st: &mut Choices, o: &StyleOpts, sites: &mut usize) -> String {
    if !o.radix && !o.char_imm {
        return v.to_string();
    }
    let mut w = vec![6u32, 0, 0, 0, 0];
    if o.radix {
        w[1] = 2; // hex
        w[2] = 1; // bin
        w[3] = 1; // two's complement hex for negatives
    }
    if o.char_imm && (32..127).contains(&v) && v != 39 && v != 92 && v != 34 {
        w[4] = 2;
    }
    let k = st.weighted(&w);
    if k != 0 {
        *sites += 1;
    }
    let neg = v < 0;
    let mag = v.unsigned_abs();
    match k {
        1 => {
            let upper = st.chance(1, 3);
            let digits = if upper {
                format!("{mag:X}")
            } else {
                format!("{mag:x}")
            };
            let pad = if st.chance(1, 4) { "000" } else { "" };
            let pfx = if st.chance(1, 5) { "0X" } else { "0x" };
            format!("{}{}{}{}", if neg { "-" } else { "" }, pfx, pad, digits)
        }
        2 => {
            if mag > 0xffff {
                v.to_string()
            } else {
                format!("{}0b{:b}", if neg { "-" } else { "" }, mag)
            }
        }
        3 => {
            if neg && v >= -(1i64 << 31) {
                if st.chance(1, 3) {
                    format!("0b{:032b}", v as i32 as u32)
                } else {
                    format!("0x{:08x}", v as i32 as u32)
                }
            } else {
                v.to_string()
            }
        }
        4 => format!("'{}'", v as u8 as char),
        _ => v.to_string(),
    }
}

fn fmt_reg(x: u8, st: &mut Choices, o: &StyleOpts, sites: &mut usize) -> String {
    if !o.reg_spelling {
        return ABI[x as usize].to_string();
    }
    let k = st.weighted(&[5, 2, if x == 8 { 1 } else { 0 }]);
    if k != 0 {
        *sites += 1;
    }
    match k {
        1 => format!("x{x}"),
        2 => "fp".to_string(),
        _ => ABI[x as usize].to_string(),
    }
}

fn fmt_mn(mn: &str, st: &mut Choices, o: &StyleOpts, sites: &mut usize) -> String {
    if !o.mn_case {
        return mn.to_string();
    }
    match st.weighted(&[6, 1, 1]) {
        1 => {
            *sites += 1;
            mn.to_uppercase()
        }
        2 => {
            *sites += 1;
            let mut s = String::new();
            for (i, c) in mn.chars().enumerate() {
                if i % 2 == 0 {
                    s.extend(c.to_uppercase());
                } else {
                    s.push(c);
                }
            }
            s
        }
        _ => mn.to_string(),
    }
}

const COMMENT_TEXTS: [&str; 8] = [
    "",
    " x",
    " add a0, a0, a0",
    "# nested # hash",
    " tab\there",
    " unicode \u{e9}\u{4e16}",
    " trailing   ",
    " \"quote' : ( ) .data",
];

fn emit_operand(
    op: &Opd,
    out: &mut Out,
    st: &mut Choices,
    o: &StyleOpts,
    sites: &mut usize,
) -> OpSpan {
    let start = out.chars;
    let mut sp = OpSpan::default();
    match op {
        Opd::R(x) => {
            let s = fmt_reg(*x, st, o, sites);
            out.push(&s);
            sp.reg = Some((start, out.chars));
        }
        Opd::I(v) => {
            let s = fmt_imm(*v, st, o, sites);
            out.push(&s);
            sp.imm = Some((start, out.chars));
        }
        Opd::L(s) | Opd::C(s) | Opd::V(s) => out.push(s),
        Opd::S(s) => {
            out.push("\"");
            out.push(s);
            out.push("\"");
        }
        Opd::M(off, base) => {
            let omit = *off == 0 && o.omit_zero_off && st.chance(1, 3);
            if omit {
                *sites += 1;
            } else {
                let s = fmt_imm(*off, st, o, sites);
                out.push(&s);
                sp.imm = Some((start, out.chars));
                if o.seps && st.chance(1, 6) {
                    *sites += 1;
                    out.push(" ");
                }
            }
            out.push("(");
            let inner_ws = o.seps && st.chance(1, 8);
            if inner_ws {
                *sites += 1;
                out.push(" ");
            }
            let rs = out.chars;
            let s = fmt_reg(*base, st, o, sites);
            out.push(&s);
            sp.reg = Some((rs, out.chars));
            if inner_ws {
                out.push(" ");
            }
            out.push(")");
        }
    }
    sp.whole = (start, out.chars);
    sp
}

/// Render `lines` with style decisions drawn from `st` (an empty choice
/// sequence gives the canonical style).
pub fn render(lines: &[Line], st: &mut Choices, o: &StyleOpts) -> Rendered {
    let mut out = Out {
        chars: 0,
        line: 0,
        text: String::new(),
    };
    let mut map: Vec<LineSpan> = Vec::with_capacity(lines.len());
    let mut sites = 0usize;
    if o.leading_blank && st.chance(1, 6) {
        sites += 1;
        let n = 1 + st.below(2);
        for _ in 0..n {
            out.push("\n");
        }
    }
    let n = lines.len();
    let mut idx = 0;
    while idx < n {
        let line = &lines[idx];
        let is_last = idx + 1 == n;
        if o.blanks && st.chance(1, 10) {
            sites += 1;
            match st.below(3) {
                0 => out.push("\n"),
                1 => out.push("   \t\n"),
                _ => out.push("  # interleaved comment\n"),
            }
        }
        let mut inline_next = false;
        match line {
            Line::Label(name) => {
                let indent = if o.indent && st.chance(1, 6) {
                    sites += 1;
                    "  "
                } else {
                    ""
                };
                out.push(indent);
                let s = out.chars;
                out.push(name);
                out.push(":");
                map.push(LineSpan {
                    line: out.line,
                    stmt: (s, out.chars),
                    head: (s, out.chars),
                    ops: vec![],
                });
                // label followed by an instruction/directive on the same line
                if o.inline_labels
                    && !is_last
                    && matches!(lines[idx + 1], Line::Ins(_) | Line::Dir(..))
                    && st.chance(1, 4)
                {
                    sites += 1;
                    inline_next = true;
                    out.push(if st.chance(1, 3) { "\t" } else { " " });
                }
            }
            Line::Ins(Ins { mn, ops }) | Line::Dir(mn, ops) => {
                let is_dir = matches!(line, Line::Dir(..));
                let prev_inline = idx > 0
                    && matches!(lines[idx - 1], Line::Label(_))
                    && !out.text.ends_with('\n')
                    && !out.text.is_empty();
                if !prev_inline {
                    let indent = if o.indent {
                        let k = st.weighted(&[5, 1, 1, 1, 1]);
                        if k != 0 {
                            sites += 1;
                        }
                        ["    ", "", "\t", "  \t ", " "][k]
                    } else if is_dir {
                        ""
                    } else {
                        "    "
                    };
                    out.push(indent);
                }
                let s = out.chars;
                let m = if is_dir {
                    mn.clone()
                } else {
                    fmt_mn(mn, st, o, &mut sites)
                };
                out.push(&m);
                let head = (s, out.chars);
                let mut spans = Vec::new();
                for (k, op) in ops.iter().enumerate() {
                    let sep = if k == 0 {
                        if o.seps {
                            let j = st.weighted(&[6, 1, 1]);
                            if j != 0 {
                                sites += 1;
                            }
                            [" ", "\t", "   "][j]
                        } else {
                            " "
                        }
                    } else if o.seps {
                        let j = st.weighted(&[6, 1, 1, 1, 1, 1]);
                        if j != 0 {
                            sites += 1;
                        }
                        [", ", ",", " ", " , ", ",\t", ",, "][j]
                    } else {
                        ", "
                    };
                    out.push(sep);
                    spans.push(emit_operand(op, &mut out, st, o, &mut sites));
                }
                map.push(LineSpan {
                    line: out.line,
                    stmt: (s, out.chars),
                    head,
                    ops: spans,
                });
            }
            Line::Comment(c) => {
                let s = out.chars;
                out.push("#");
                out.push(c);
                map.push(LineSpan {
                    line: out.line,
                    stmt: (s, s),
                    head: (s, s),
                    ops: vec![],
                });
            }
            Line::Blank => {
                let s = out.chars;
                map.push(LineSpan {
                    line: out.line,
                    stmt: (s, s),
                    head: (s, s),
                    ops: vec![],
                });
            }
            Line::Raw(t) => {
                let s = out.chars;
                let ln = out.line;
                out.push(t);
                map.push(LineSpan {
                    line: ln,
                    stmt: (s, out.chars),
                    head: (s, out.chars),
                    ops: vec![],
                });
            }
        }
        if inline_next {
            idx += 1;
            continue;
        }
        if o.comments
            && !matches!(line, Line::Comment(_) | Line::Raw(_))
            && st.chance(1, 6)
        {
            sites += 1;
            out.push(if st.chance(1, 2) { " " } else { "\t" });
            out.push("#");
            let c = *st.pick(&COMMENT_TEXTS);
            out.push(c);
        }
        if is_last && o.no_final_newline && st.chance(1, 4) {
            sites += 1;
        } else {
            out.push("\n");
        }
        idx += 1;
    }
    Rendered {
        text: out.text,
        map,
        style_sites: sites,
    }
}

pub fn render_plain(lines: &[Line]) -> Rendered {
    render(lines, &mut Choices::new(&[]), &StyleOpts::none())
}

/// Character-offset helpers over a text.
pub struct TextIndex {
    pub chars: Vec<char>,
    /// char offset of the start of each line (lines are separated by '\n')
    pub line_starts: Vec<usize>,
}

impl TextIndex {
    pub fn new(text: &str) -> Self {
        let chars: Vec<char> = text.chars().collect();
        let mut line_starts = vec![0];
        for (i, c) in chars.iter().enumerate() {
            if *c == '\n' {
                line_starts.push(i + 1);
            }
        }
        TextIndex { chars, line_starts }
    }
    pub fn len(&self) -> usize {
        self.chars.len()
    }
    /// (line, column) of a char offset, both zero-based
    pub fn line_col(&self, raw: usize) -> (usize, usize) {
        let line = match self.line_starts.binary_search(&raw) {
            Ok(i) => i,
            Err(i) => i - 1,
        };
        (line, raw - self.line_starts[line])
    }
    pub fn slice(&self, s: usize, e: usize) -> String {
        let e = e.min(self.chars.len());
        if s >= e {
            return String::new();
        }
        self.chars[s..e].iter().collect()
    }
    pub fn line_text(&self, line: usize) -> String {
        let s = self.line_starts[line];
        let e = if line + 1 < self.line_starts.len() {
            self.line_starts[line + 1] - 1
        } else {
            self.chars.len()
        };
        self.slice(s, e)
    }
    pub fn n_lines(&self) -> usize {
        self.line_starts.len()
    }
}

#[cfg(test)]
mod tests {
    use super::*;

    #[test]
    fn plain_render_and_map() {
        let prog = vec![
            label("main"),
            ins("addi", vec![r(10), r(10), i(1)]),
            ins("lw", vec![r(5), m(-4, 2)]),
        ];
        let rd = render_plain(&prog);
        assert_eq!(rd.text, "main:\n    addi a0, a0, 1\n    lw t0, -4(sp)\n");
        let ti = TextIndex::new(&rd.text);
        assert_eq!(ti.slice(rd.map[1].stmt.0, rd.map[1].stmt.1), "addi a0, a0, 1");
        assert_eq!(rd.map[1].line, 1);
        let op = &rd.map[2].ops[1];
        assert_eq!(ti.slice(op.whole.0, op.whole.1), "-4(sp)");
        assert_eq!(ti.slice(op.reg.unwrap().0, op.reg.unwrap().1), "sp");
        assert_eq!(ti.slice(op.imm.unwrap().0, op.imm.unwrap().1), "-4");
        assert_eq!(ti.line_col(rd.map[2].stmt.0), (2, 4));
    }

    #[test]
    fn styled_render_map_is_consistent() {
        let prog = vec![
            label("main"),
            ins("addi", vec![r(8), r(10), i(65)]),
            label("x"),
            ins("sw", vec![r(5), m(0, 2)]),
            Line::Dir(".word".into(), vec![i(1), i(-2)]),
        ];
        for seed in 0..200u32 {
            let data: Vec<u32> = (0..200)
                .map(|k| (seed.wrapping_mul(2654435761).wrapping_add(k * 40503)).wrapping_mul(2246822519))
                .collect();
            let rd = render(&prog, &mut Choices::new(&data), &StyleOpts::all());
            let ti = TextIndex::new(&rd.text);
            assert_eq!(rd.map.len(), prog.len());
            for (ls, line) in rd.map.iter().zip(prog.iter()) {
                let (ln, _) = ti.line_col(ls.stmt.0);
                assert_eq!(ln, ls.line, "{:?}", rd.text);
                if let Line::Ins(i) = line {
                    let head = ti.slice(ls.head.0, ls.head.1).to_lowercase();
                    assert_eq!(head, i.mn);
                    for (k, op) in i.ops.iter().enumerate() {
                        if let Opd::R(x) = op {
                            let sp = ls.ops[k].reg.unwrap();
                            assert_eq!(reg_from_name(&ti.slice(sp.0, sp.1)), Some(*x));
                        }
                    }
                }
            }
        }
    }
}
