//! Correspondence between model lines, machine text indices and CFG nodes
//! (by raw source offset through the renderer's source map).

use std::collections::{BTreeMap, HashMap};

use crate::adapter::CfgView;
use crate::machine::Flat;
use crate::model::*;

pub struct Link {
    /// model line -> CFG node indices of that statement (instruction nodes, in order)
    pub line_nodes: HashMap<usize, Vec<usize>>,
    /// CFG node index -> model line
    pub node_line: Vec<Option<usize>>,
    /// instruction node index -> the synthetic function-entry node in front of it
    pub entry_before: HashMap<usize, usize>,
    /// every statement found its node(s) and the offsets agree
    pub complete: bool,
}

/// How many instruction nodes a statement becomes.
pub fn nodes_of(i: &Ins) -> usize {
    let is_mem = matches!(
        i.mn.as_str(),
        "lw" | "lh" | "lb" | "lhu" | "lbu" | "lwu" | "sw" | "sh" | "sb"
    );
    if is_mem && (matches!(i.ops.get(1), Some(Opd::L(_))) || i.ops.len() == 3) {
        2
    } else {
        1
    }
}

/// Nodes are matched to statements *by order* (the analyzer keeps source
/// order in its node list); raw offsets are only used as a cross-check for
/// nodes that have not been rewritten by the function pass.
pub fn link(rd: &Rendered, lines: &[Line], cfg: &CfgView) -> Link {
    let mut line_nodes: HashMap<usize, Vec<usize>> = HashMap::new();
    let mut node_line = vec![None; cfg.nodes.len()];
    let mut entry_before = HashMap::new();
    let mut pending_entry: Option<usize> = None;
    let mut stmts = lines
        .iter()
        .enumerate()
        .filter_map(|(li, l)| match l {
            Line::Ins(i) => Some((li, nodes_of(i))),
            _ => None,
        })
        .peekable();
    let mut taken = 0usize;
    let mut mismatches = 0usize;
    for n in &cfg.nodes {
        if n.is_program_entry {
            continue;
        }
        if n.is_func_entry {
            pending_entry = Some(n.idx);
            continue;
        }
        let Some((li, k)) = stmts.peek().copied() else { break };
        line_nodes.entry(li).or_default().push(n.idx);
        node_line[n.idx] = Some(li);
        if n.range.start.raw != rd.map[li].stmt.0 && n.kind != "JumpLink" {
            mismatches += 1;
        }
        if let Some(e) = pending_entry.take() {
            entry_before.insert(n.idx, e);
        }
        taken += 1;
        if taken == k {
            taken = 0;
            stmts.next();
        }
    }
    let complete = stmts.peek().is_none() && mismatches == 0;
    let _ = BTreeMap::<usize, usize>::new();
    Link {
        line_nodes,
        node_line,
        entry_before,
        complete,
    }
}

impl Link {
    /// first CFG node of the instruction at machine text index `t`
    pub fn first_node(&self, flat: &Flat, t: usize) -> Option<usize> {
        let li = flat.text.get(t)?.line;
        self.line_nodes.get(&li)?.first().copied()
    }
    pub fn last_node(&self, flat: &Flat, t: usize) -> Option<usize> {
        let li = flat.text.get(t)?.line;
        self.line_nodes.get(&li)?.last().copied()
    }
}
