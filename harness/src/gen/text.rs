//! Hostile and malformed text (C06): character soup, token soup over the
//! analyzer's own vocabulary, line-level mutations of valid programs,
//! structural scaling families, include graphs with cycles and missing files.

use crate::choice::Choices;
use crate::gen::{clean, syn, wild};
use crate::model::*;

pub const CHAR_TABLE: [char; 48] = [
    '\u{2003}', '\u{3000}', '\u{1680}', '\u{85}',
    ' ', ' ', '\n', '\n', '\t', '\r', ',', '.', '#', ':', '(', ')', '"', '\'', '\\', '-', '_', '+', '@', ';', '!', '0', '1', '9',
    'x', 'b', 'a', 's', 'p', 't', 'z', 'A', 'F', '\0', '\u{7f}', '\u{a0}', '\u{e9}', '\u{2028}', '\u{1f600}', '\u{feff}', '\u{202e}', '$', '=', '%',
];

pub const WORDS: [&str; 96] = [
    "add", "addi", "sub", "lw", "sw", "lb", "sb", "lh", "sh", "lui", "auipc", "jal", "jalr", "j", "jr", "ret", "call", "beq", "bne", "blt",
    "bge", "beqz", "bnez", "bgt", "ble", "li", "la", "mv", "neg", "not", "nop", "ecall", "ebreak", "uret", "csrrw", "csrrwi", "csrr", "csrw",
    "csrwi", "fence", "mul", "div", "rem", "slli", "srai", "sltiu", "seqz", "sgez", "b", "zero", "ra", "sp", "gp", "tp", "t0", "t6", "s0",
    "fp", "s11", "a0", "a7", "x0", "x31", "x32", ".text", ".data", ".word", ".half", ".byte", ".dword", ".ascii", ".asciz", ".string",
    ".space", ".align", ".include", ".macro", ".endmacro", ".eqv", ".globl", ".section", ".float", ".double", ".extern", "ustatus",
    "utvec", "uepc", "main:", "loop:", "x:", "a0:", "main", "loop", "undefined_label", "_", "-",
];

pub const LITERALS: [&str; 40] = [
    "0", "1", "-1", "4", "-4", "2047", "-2048", "2048", "4095", "4096", "0x7fffffff", "0x80000000", "0xffffffff", "-0x80000000",
    "-0x80000001", "0x100000000", "2147483647", "-2147483648", "2147483648", "4294967295", "99999999999999999999", "0b101", "0b", "0x",
    "0b2", "--1", "1_000", "'a'", "'\\n'", "'\\0'", "'\\''", "'", "''", "'ab'", "\"s\"", "\"\"", "\"a\\n\\\"b\"", "\"unterminated", "\"\\q\"", "'\\u00e9'",
];

pub const PUNCT: [&str; 12] = ["(", ")", "(sp)", "0(sp)", "-4(sp)", "4(", ")(", ":", ",", ",,", "#", "# comment"];

fn char_soup(ch: &mut Choices, max: usize) -> String {
    let n = ch.below(max + 1);
    (0..n).map(|_| *ch.pick(&CHAR_TABLE)).collect()
}

fn token_soup(ch: &mut Choices, max: usize) -> String {
    let n = ch.below(max + 1);
    let mut s = String::new();
    for _ in 0..n {
        let tok: &str = match ch.weighted(&[6, 3, 2, 1]) {
            0 => ch.pick_str(&WORDS),
            1 => ch.pick_str(&LITERALS),
            2 => ch.pick_str(&PUNCT),
            _ => "",
        };
        s.push_str(tok);
        s.push_str(match ch.weighted(&[5, 3, 1, 1, 1]) {
            0 => " ",
            1 => "\n",
            2 => ", ",
            3 => "\t",
            _ => "",
        });
    }
    s
}

pub fn valid_lines(ch: &mut Choices) -> Vec<Line> {
    match ch.below(3) {
        0 => {
            syn::program(
                ch,
                &syn::SynOpts {
                    max_funcs: 2,
                    max_body: 6,
                    data: true,
                    odd_forms: true,
                },
            )
            .0
        }
        1 => {
            wild::program(
                ch,
                &wild::WildOpts {
                    max_funcs: 3,
                    max_blocks: 3,
                    max_body: 3,
                    chaos: true,
                    c03_domain: false,
                    faults: true,
                    data: true,
                },
            )
            .0
        }
        _ => clean::program(ch, &clean::CleanOpts::all(3, 5)).0,
    }
}

fn mutated_program(ch: &mut Choices) -> String {
    let lines = valid_lines(ch);
    let text = render(&lines, ch, &StyleOpts::all()).text;
    let mut src: Vec<String> = text.split('\n').map(|s| s.to_string()).collect();
    let n_mut = 1 + ch.below(4);
    for _ in 0..n_mut {
        if src.is_empty() {
            break;
        }
        let k = ch.below(src.len());
        match ch.below(9) {
            0 => {
                src.remove(k);
            }
            1 => {
                let l = src[k].clone();
                src.insert(k, l);
            }
            2 => {
                let j = ch.below(src.len());
                src.swap(k, j);
            }
            3 => {
                let chars: Vec<char> = src[k].chars().collect();
                let cut = ch.below(chars.len() + 1);
                src[k] = chars[..cut].iter().collect();
            }
            4 => {
                // drop the last operand
                if let Some(p) = src[k].rfind(',') {
                    src[k].truncate(p);
                }
            }
            5 => {
                // corrupt the mnemonic / a token
                let chars: Vec<char> = src[k].chars().collect();
                if !chars.is_empty() {
                    let p = ch.below(chars.len());
                    let mut c2 = chars.clone();
                    c2[p] = *ch.pick(&CHAR_TABLE);
                    src[k] = c2.into_iter().collect();
                }
            }
            6 => {
                let chars: Vec<char> = src[k].chars().collect();
                let p = ch.below(chars.len() + 1);
                let mut c2 = chars.clone();
                c2.insert(p, *ch.pick(&CHAR_TABLE));
                src[k] = c2.into_iter().collect();
            }
            7 => {
                let t = token_soup(ch, 4).replace('\n', " ");
                src.insert(k, t);
            }
            _ => {
                let lit = ch.pick_str(&LITERALS);
                src[k] = format!("{} {}", src[k], lit);
            }
        }
    }
    let nl = if ch.chance(1, 6) { "\r\n" } else { "\n" };
    src.join(nl)
}

/// Structural families; `n` is the size parameter.
pub fn family(kind: usize, n: usize) -> String {
    match kind {
        0 => ".".repeat(n),
        1 => "(".repeat(n),
        2 => "\n".repeat(n),
        3 => (0..n).map(|k| format!("l{k}:\n")).collect(),
        4 => format!(".word {}\n", (0..n).map(|k| k.to_string()).collect::<Vec<_>>().join(", ")),
        5 => format!("# {}\n", "c".repeat(n)),
        6 => {
            // n labels + n jumps (all defined)
            let mut s = String::from("main:\n");
            for k in 0..n {
                s.push_str(&format!("    beqz a0, t{}\n", (k * 7 + 3) % n));
            }
            for k in 0..n {
                s.push_str(&format!("t{k}:\n    addi a0, a0, {k}\n"));
            }
            s.push_str("    li a7, 10\n    ecall\n");
            s
        }
        7 => {
            // nested counted loops
            let mut s = String::from("main:\n");
            for k in 0..n {
                s.push_str(&format!("    li t0, {k}\nL{k}:\n"));
            }
            for k in (0..n).rev() {
                s.push_str(&format!("    addi t0, t0, -1\n    bnez t0, L{k}\n"));
            }
            s.push_str("    li a7, 10\n    ecall\n");
            s
        }
        8 => {
            // long chain of diamonds
            let mut s = String::from("main:\n    li s0, 0\n");
            for k in 0..n {
                s.push_str(&format!("    beqz s0, e{k}\n    addi s0, s0, 1\n    j j{k}\ne{k}:\n    addi s0, s0, 2\nj{k}:\n"));
            }
            s.push_str("    li a7, 10\n    ecall\n");
            s
        }
        9 => {
            // many functions calling each other in a chain
            let mut s = String::from("main:\n    jal f0\n    li a7, 10\n    ecall\n");
            for k in 0..n {
                s.push_str(&format!("f{k}:\n    addi sp, sp, -4\n    sw ra, 0(sp)\n"));
                if k + 1 < n {
                    s.push_str(&format!("    jal f{}\n", k + 1));
                }
                s.push_str("    lw ra, 0(sp)\n    addi sp, sp, 4\n    ret\n");
            }
            s
        }
        10 => format!("add a0, a0, {}\n", "a0 ".repeat(n)),
        11 => format!("{}\n", "add a0, a0, a0 ".repeat(n)),
        12 => "\"".repeat(n),
        13 => format!(".macro\n{}", "nop\n".repeat(n)),
        14 => (0..n).map(|_| "lw a0, 0(sp\n").collect(),
        15 => format!("li a0, {}\n", "9".repeat(n)),
        16 => {
            // a function that leaves a saved register unrestored after n if/else blocks with arms of equal length
            let mut s = String::from("main:\n    jal f\n    li a7, 10\n    ecall\nf:\n    li s1, 3\n");
            for k in 0..n {
                s.push_str(&format!("    beqz a0, e{k}\n    addi a1, a1, 1\n    j j{k}\ne{k}:\n    slli a1, a1, 1\n    addi a1, a1, 2\nj{k}:\n"));
            }
            s.push_str("    mv a0, a1\n    ret\n");
            s
        }
        17 => {
            // extreme immediates in stack-pointer arithmetic and stack accesses
            const G: [i64; 12] = [0, 4, -4, 2047, -2048, 2048, 0x7fff_fffc, 0x7fff_ffff, -0x8000_0000, -0x7fff_fffc, 0x4000_0000, -0x4000_0000];
            let a = G[n % G.len()];
            let b = G[(n / G.len()) % G.len()];
            let c = G[(n / (G.len() * G.len())) % G.len()];
            format!("main:\n    addi sp, sp, {a}\n    sw a0, {b}(sp)\n    addi sp, sp, {c}\n    lw a1, {b}(sp)\n    sw a1, {c}(sp)\n    addi sp, sp, {a}\n    li a7, 10\n    ecall\n")
        }
        19 => {
            // a run of one character (every character of the table in turn), alone on a line of a small program
            let c = CHAR_TABLE[n % CHAR_TABLE.len()];
            let len = [1usize, 40, 3000, 40_000][(n / CHAR_TABLE.len()) % 4];
            let run: String = std::iter::repeat(c).take(len).collect();
            format!("main:\n    li a0, 1\n{run}\n    li a7, 10\n    ecall\n")
        }
        20 => {
            // a long line whose tail is made of multi-byte characters, with a diagnostic on it (unused value)
            const MB: [char; 4] = ['\u{e9}', '\u{20ac}', '\u{1f600}', '\u{3000}'];
            let c = MB[n % MB.len()];
            let pad = (n / MB.len()) % 5;
            let len = [30usize, 100, 157, 200, 1000][(n / (MB.len() * 5)) % 5];
            let tail: String = std::iter::repeat(c).take(len).collect();
            format!("main:\n{}addi t0, zero, 1 # {tail}\n    li a7, 10\n    ecall\n", " ".repeat(pad))
        }
        21 => {
            // a run of one token (every word, literal and punctuation of the tables in turn) on one line
            let all: Vec<&str> = WORDS.iter().chain(LITERALS.iter()).chain(PUNCT.iter()).copied().collect();
            let t = all[n % all.len()];
            let len = [2usize, 50, 5000][(n / all.len()) % 3];
            format!("main:\n    {}\n    li a7, 10\n    ecall\n", vec![t; len].join(" "))
        }
        _ => {
            // lines with Unicode white space in front of, inside and after the statement
            const WS: [char; 7] = ['\u{a0}', '\u{2003}', '\u{3000}', '\u{1680}', '\u{85}', '\u{2028}', '\u{feff}'];
            let w = WS[n % WS.len()];
            let variant = (n / WS.len()) % 8;
            let line = match variant {
                0 => format!("{w}{w}add a0, a0, q9"),
                1 => format!("  {w} addi t0, t0"),
                2 => format!("\t{w}li t1, 5"),
                3 => format!("    add{w}a0, a0, a0"),
                4 => format!("    li t1, 5 # {w}{w} comment\n{w}"),
                // white space inside a literal, followed by a token that is reported
                6 => format!("    li t1, '{w}' junk"),
                7 => format!("    .asciz \"a{w}{w}b\" )"),
                _ => format!("{w}    lw a0, 4(sp"),
            };
            format!("main:\n{line}\n    li t2, 7\n    li a7, 10\n    ecall\n")
        }
    }
}

pub const N_FAMILIES: usize = 22;

#[derive(Clone, Debug)]
pub struct HostileCase {
    pub files: Vec<(String, String)>,
    pub mode: String,
}

pub fn hostile(ch: &mut Choices, big: bool) -> HostileCase {
    let mode = ch.weighted(&[3, 4, 5, 1, 2]);
    match mode {
        0 => HostileCase {
            files: vec![("main.s".into(), char_soup(ch, if big { 2000 } else { 300 }))],
            mode: "char-soup".into(),
        },
        1 => HostileCase {
            files: vec![("main.s".into(), token_soup(ch, if big { 600 } else { 120 }))],
            mode: "token-soup".into(),
        },
        2 => HostileCase {
            files: vec![("main.s".into(), mutated_program(ch))],
            mode: "mutated-program".into(),
        },
        3 => {
            let kind = ch.below(N_FAMILIES);
            let n = if big { ch.int_in(1, 3000) } else { ch.int_in(1, 300) } as usize;
            // the cost of analysing a call chain is quadratic in its length: keep the random sizes
            // far below what the 10 s CPU limit of a CLI run in the unoptimised profile allows
            let n = if kind == 9 { n.min(100) } else { n };
            HostileCase {
                files: vec![("main.s".into(), family(kind, n))],
                mode: format!("family:{kind}"),
            }
        }
        _ => {
            // include graphs: random edges between 1..4 files, possibly missing targets
            let nf = 1 + ch.below(4);
            let names: Vec<String> = (0..nf).map(|k| if k == 0 { "main.s".to_string() } else { format!("f{k}.s") }).collect();
            let mut files = vec![];
            for k in 0..nf {
                let mut t = String::new();
                let body = if ch.chance(1, 2) { token_soup(ch, 20) } else { mutated_program(ch) };
                let n_inc = ch.below(4);
                let mut parts: Vec<String> = body.split('\n').map(|s| s.to_string()).collect();
                for _ in 0..n_inc {
                    let target = match ch.below(6) {
                        0 => "missing.s".to_string(),
                        1 => names[k].clone(),
                        2 => "".to_string(),
                        3 => "main.s".to_string(),
                        _ => ch.pick(&names).clone(),
                    };
                    // the same file under another spelling
                    let target = match ch.below(5) {
                        0 if !target.is_empty() => format!("./{target}"),
                        1 if !target.is_empty() => format!("sub/../{target}"),
                        _ => target,
                    };
                    let at = ch.below(parts.len() + 1);
                    let quote = if ch.chance(1, 6) { "" } else { "\"" };
                    parts.insert(at, format!(".include {quote}{target}{quote}"));
                }
                t.push_str(&parts.join("\n"));
                files.push((names[k].clone(), t));
            }
            HostileCase {
                files,
                mode: "include-graph".into(),
            }
        }
    }
}
