//! Arbitrary well-formed programs: regions (main + functions) made of
//! labelled blocks with random terminators, cross-region jumps, shared tails,
//! several labels on one entry, multiple returns, exit ecalls in odd places,
//! fall-through between regions, code only reachable from dead code, and —
//! optionally — CFG-level faults.

use crate::choice::Choices;
use crate::gen::syn;
use crate::model::*;
use serde::{Deserialize, Serialize};

#[derive(Clone, Debug, Serialize, Deserialize)]
pub struct WildOpts {
    pub max_funcs: usize,
    pub max_blocks: usize,
    pub max_body: usize,
    /// cross-region jumps/branches, calls to arbitrary labels, fall-through between regions
    pub chaos: bool,
    /// restrict to the C03 domain: no `jr`, every region ends in ret / exit / jump
    pub c03_domain: bool,
    /// inject CFG-level faults (C16)
    pub faults: bool,
    pub data: bool,
}

#[derive(Clone, Debug, Default, Serialize, Deserialize)]
pub struct WildInfo {
    pub n_funcs: usize,
    pub back_branches: usize,
    pub calls: usize,
    pub multi_return: bool,
    pub exit_in_function: bool,
    pub dead_block: bool,
    pub cross_region: bool,
    pub multi_label_entry: bool,
    pub fallthrough_into_function: bool,
    pub call_to_nonfunction_label: bool,
    pub recursion: bool,
    pub faults: Vec<String>,
}

struct Block {
    labels: Vec<String>,
    body: Vec<Line>,
    term: Vec<Line>,
    region: usize,
}

fn value_setup(ch: &mut Choices) -> Vec<Line> {
    // makes branch outcomes vary between executions and within loops
    match ch.below(4) {
        0 => vec![ins("addi", vec![r(syn::gp_reg(ch)), r(syn::any_reg(ch)), i(ch.int_in(-3, 3))])],
        1 => vec![ins("li", vec![r(syn::gp_reg(ch)), i(ch.int_in(-2, 5))])],
        2 => vec![ins(
            ch.pick_str(&["add", "sub", "xor", "and", "slt", "srl"]),
            vec![r(syn::gp_reg(ch)), r(syn::any_reg(ch)), r(syn::any_reg(ch))],
        )],
        _ => vec![ins("andi", vec![r(syn::gp_reg(ch)), r(syn::any_reg(ch)), i(ch.int_in(1, 7))])],
    }
}

/// Traffic through a pointer kept in a CSR is generated only where it is switched on (C12): inside a
/// loop it can make the value analysis run forever (known finding KF-csr-pointer-loop), which every
/// other check would meet as a hanging worker.
pub static CSR_TRAFFIC: std::sync::atomic::AtomicBool = std::sync::atomic::AtomicBool::new(false);

pub fn program(ch: &mut Choices, o: &WildOpts) -> (Vec<Line>, WildInfo) {
    if ch.chance(1, 14) {
        return shared_tails(ch);
    }
    let mut info = WildInfo::default();
    let n_funcs = ch.below(o.max_funcs + 1);
    info.n_funcs = n_funcs;
    let mut data_labels: Vec<String> = vec![];
    let mut data: Vec<Line> = vec![];
    if o.data && ch.chance(1, 3) {
        data.push(Line::Dir(".data".into(), vec![]));
        for k in 0..1 + ch.below(2) {
            let n = format!("dat{k}");
            data.push(Line::Label(n.clone()));
            data_labels.push(n);
            data.push(Line::Dir(
                ".word".into(),
                (0..1 + ch.below(3)).map(|_| i(syn::li_imm(ch))).collect(),
            ));
        }
    }
    // plan blocks
    let mut blocks: Vec<Block> = vec![];
    let mut region_labels: Vec<Vec<String>> = vec![];
    let mut entry_labels: Vec<String> = vec![];
    for reg in 0..=n_funcs {
        let nb = 1 + ch.below(o.max_blocks);
        let mut labels_here = vec![];
        for b in 0..nb {
            let mut labels = vec![];
            if b == 0 {
                if reg == 0 {
                    if ch.chance(3, 4) {
                        labels.push("main".to_string());
                    }
                } else {
                    labels.push(format!("fn{reg}"));
                    entry_labels.push(format!("fn{reg}"));
                    if ch.chance(1, 5) {
                        // a second label on the entry: a second name of the function (callable) or
                        // just a loop label that is only branched to
                        info.multi_label_entry = true;
                        labels.push(format!("fn{reg}_alias"));
                        if ch.chance(1, 2) {
                            entry_labels.push(format!("fn{reg}_alias"));
                        }
                    }
                }
            } else if ch.chance(4, 5) {
                labels.push(format!("r{reg}_b{b}"));
            }
            labels_here.extend(labels.iter().cloned());
            blocks.push(Block {
                labels,
                body: vec![],
                term: vec![],
                region: reg,
            });
        }
        region_labels.push(labels_here);
    }
    let all_labels: Vec<String> = region_labels.iter().flatten().cloned().collect();
    let n_blocks = blocks.len();
    for bi in 0..n_blocks {
        let reg = blocks[bi].region;
        let is_last_in_region = bi + 1 == n_blocks || blocks[bi + 1].region != reg;
        // body
        let nb = ch.below(o.max_body + 1);
        let mut body = vec![];
        for _ in 0..nb {
            match ch.weighted(&[6, 4, if entry_labels.is_empty() { 0 } else { 3 }, 1]) {
                0 => body.extend(value_setup(ch)),
                1 if !o.c03_domain && CSR_TRAFFIC.load(std::sync::atomic::Ordering::Relaxed) && ch.chance(1, 25) => {
                    // traffic through a pointer kept in a CSR: a value is stored, read back, stored
                    // into a second slot and read back again (each read depends on the one before)
                    let p = *ch.pick(&[10u8, 5, 28]);
                    let (a, b, c) = (syn::gp_reg(ch), syn::gp_reg(ch), syn::gp_reg(ch));
                    let (k1, k2) = (4 * ch.int_in(-2, 2), 4 * ch.int_in(3, 5));
                    body.push(ins("li", vec![r(a), i(ch.int_in(1, 9))]));
                    body.push(ins("csrrw", vec![r(p), Opd::C("uscratch".into()), r(p)]));
                    body.push(ins("sw", vec![r(a), m(k1, p)]));
                    body.push(ins("li", vec![r(a), i(ch.int_in(10, 19))]));
                    body.push(ins("lw", vec![r(b), m(k1, p)]));
                    body.push(ins("sw", vec![r(b), m(k2, p)]));
                    body.push(ins("lw", vec![r(c), m(k2, p)]));
                }
                1 => body.extend(syn::plain_ins(ch, &data_labels)),
                2 => {
                    // call
                    info.calls += 1;
                    let target = if o.chaos && ch.chance(1, 12) && !all_labels.is_empty() {
                        let t = ch.pick(&all_labels).clone();
                        if !entry_labels.contains(&t) {
                            info.call_to_nonfunction_label = true;
                        }
                        t
                    } else {
                        ch.pick(&entry_labels).clone()
                    };
                    if reg > 0 && target == format!("fn{reg}") {
                        info.recursion = true;
                    }
                    body.push(match ch.below(3) {
                        0 => ins("jal", vec![Opd::L(target)]),
                        1 => ins("call", vec![Opd::L(target)]),
                        _ => ins("jal", vec![r(RA), Opd::L(target)]),
                    });
                }
                _ => match ch.weighted(&[5, 2, 2]) {
                    // an ecall that does not exit
                    0 => {
                        let n = if ch.chance(1, 2) { *ch.pick(&[1i64, 11, 5, 34]) } else { *ch.pick(&crate::machine::NON_EXIT_ECALLS) };
                        body.push(ins("li", vec![r(A7), i(n)]));
                        body.push(ins("ecall", vec![]));
                    }
                    // a bare ecall: its number is whatever the paths reaching it left in a7
                    1 => body.push(ins("ecall", vec![])),
                    // a7 set without an ecall (possibly to an exit number)
                    _ => body.push(ins("li", vec![r(A7), i(*ch.pick(&[10i64, 93, 1, 10]))])),
                },
            }
        }
        // terminator
        let local: &Vec<String> = &region_labels[reg];
        let pick_target = |ch: &mut Choices, info: &mut WildInfo| -> Option<String> {
            if o.chaos && ch.chance(1, 10) && !all_labels.is_empty() {
                let t = ch.pick(&all_labels).clone();
                if !local.contains(&t) {
                    info.cross_region = true;
                }
                Some(t)
            } else if !local.is_empty() {
                Some(ch.pick(local).clone())
            } else {
                None
            }
        };
        let mut term = vec![];
        let exit_seq = |ch: &mut Choices| -> Vec<Line> {
            if ch.chance(1, 3) {
                vec![
                    ins("li", vec![r(A0), i(ch.int_in(0, 2))]),
                    ins("li", vec![r(A7), i(93)]),
                    ins("ecall", vec![]),
                ]
            } else {
                vec![ins("li", vec![r(A7), i(10)]), ins("ecall", vec![])]
            }
        };
        let ret_ins = |ch: &mut Choices| -> Line {
            if o.c03_domain {
                ins("ret", vec![])
            } else {
                match ch.weighted(&[6, 1, 1]) {
                    0 => ins("ret", vec![]),
                    1 => ins("jr", vec![r(RA)]),
                    _ => ins("jalr", vec![r(ZERO), r(RA), i(0)]),
                }
            }
        };
        let kind = ch.weighted(&[4, 6, 2, 1, 1, 1]);
        match kind {
            // conditional branch then fall through
            1 => {
                if let Some(t) = pick_target(ch, &mut info) {
                    // is it a backward branch?
                    let tgt_block = blocks.iter().position(|b| b.labels.contains(&t));
                    if tgt_block.map(|k| k <= bi).unwrap_or(false) {
                        info.back_branches += 1;
                    }
                    if ch.chance(1, 2) {
                        term.push(ins(
                            ch.pick_str(&syn::BRANCH3),
                            vec![r(syn::any_reg(ch)), r(syn::any_reg(ch)), Opd::L(t)],
                        ));
                    } else {
                        term.push(ins(
                            ch.pick_str(&syn::BRANCH2),
                            vec![r(syn::any_reg(ch)), Opd::L(t)],
                        ));
                    }
                }
            }
            // unconditional jump: mostly forward, so that the region's return stays reachable
            2 => {
                let later: Vec<String> = blocks[bi + 1..]
                    .iter()
                    .filter(|b| b.region == reg)
                    .flat_map(|b| b.labels.iter().cloned())
                    .collect();
                let target = if is_last_in_region && reg > 0 && !ch.chance(1, 10) {
                    None
                } else if !later.is_empty() && !ch.chance(1, 6) {
                    Some(ch.pick(&later).clone())
                } else {
                    pick_target(ch, &mut info)
                };
                if let Some(t) = target {
                    let tgt_block = blocks.iter().position(|b| b.labels.contains(&t));
                    if tgt_block.map(|k| k <= bi).unwrap_or(false) {
                        info.back_branches += 1;
                    }
                    term.push(match ch.weighted(&[6, 2, 1]) {
                        1 => ins("jal", vec![r(ZERO), Opd::L(t)]),
                        // a direct jump that links into a register other than ra (not a call)
                        2 => ins("jal", vec![r(*ch.pick(&[5u8, 6, 28])), Opd::L(t)]),
                        _ => ins("j", vec![Opd::L(t)]),
                    });
                    if bi + 1 < n_blocks && blocks[bi + 1].labels.is_empty() {
                        info.dead_block = true;
                    }
                }
            }
            // early return / early exit
            3 => {
                if !is_last_in_region {
                    if reg > 0 && ch.chance(7, 8) {
                        info.multi_return = true;
                        term.push(ret_ins(ch));
                    } else {
                        if reg > 0 {
                            info.exit_in_function = true;
                        }
                        term.extend(exit_seq(ch));
                    }
                    if bi + 1 < n_blocks && blocks[bi + 1].labels.is_empty() {
                        info.dead_block = true;
                    }
                }
            }
            // a cascade of exits: an exit ecall whose dead fall-through code redefines a7 and
            // joins a second ecall that the other path reaches with a known number
            5 => {
                let lx = format!("r{reg}_x{bi}");
                let first = *ch.pick(&[10i64, 93]);
                term.push(ins("li", vec![r(A7), i(first)]));
                term.push(ins(ch.pick_str(&syn::BRANCH2), vec![r(syn::any_reg(ch)), Opd::L(lx.clone())]));
                if ch.chance(1, 2) {
                    // the fall-through path changes the number before its exit: the second ecall is
                    // an exit only once the edge behind the first one is gone. With k stages every
                    // further exit is reached by its own branch (number known there) and by falling
                    // out of the previous exit, so it is recognised one round later than that one.
                    let k = if ch.chance(1, 12) { 3 + ch.below(9) } else { ch.below(3) };
                    let mut v = 103 - first;
                    let mut stage_labels = vec![];
                    for st in 0..k {
                        let l = format!("r{reg}_x{bi}s{st}");
                        term.push(ins("li", vec![r(A7), i(v)]));
                        term.push(ins(ch.pick_str(&syn::BRANCH2), vec![r(syn::any_reg(ch)), Opd::L(l.clone())]));
                        stage_labels.push(l);
                        v = 103 - v;
                    }
                    term.push(ins("li", vec![r(A7), i(v)]));
                    term.push(ins("ecall", vec![]));
                    for l in stage_labels.into_iter().rev() {
                        term.push(Line::Label(l));
                        term.push(ins("ecall", vec![]));
                    }
                } else {
                    if ch.chance(1, 2) {
                        term.push(ins("li", vec![r(A0), i(ch.int_in(0, 3))]));
                    }
                    term.push(ins("ecall", vec![]));
                    term.push(ins("li", vec![r(A7), i(*ch.pick(&[1i64, 10, 5, 93]))]));
                }
                term.push(Line::Label(lx));
                term.push(ins("ecall", vec![]));
                if reg > 0 {
                    info.exit_in_function = true;
                }
            }
            _ => {}
        }
        if is_last_in_region {
            let fall = o.chaos && ch.chance(1, 12) && bi + 1 < n_blocks;
            // the very last block may run off the end of the file, or leave through a computed jump
            let off_end = o.chaos && !o.c03_domain && reg > 0 && bi + 1 == n_blocks && ch.chance(1, 10);
            if fall {
                info.fallthrough_into_function = true;
            } else if off_end {
                body.extend(syn::plain_ins(ch, &data_labels));
                if ch.chance(1, 2) {
                    term.push(ins("jr", vec![r(*ch.pick(&[11u8, 5, 28]))]));
                }
            } else if reg == 0 {
                if matches!(term.last(), Some(Line::Ins(x)) if x.mn == "j" || x.mn == "jal") {
                    // already leaves
                } else {
                    term.extend(exit_seq(ch));
                }
            } else if o.chaos && ch.chance(1, 15) {
                info.exit_in_function = true;
                term.extend(exit_seq(ch));
            } else if !matches!(term.last(), Some(Line::Ins(x)) if x.mn == "ret") {
                term.push(ret_ins(ch));
            }
        }
        blocks[bi].body = body;
        blocks[bi].term = term;
    }
    // assemble
    let mut lines: Vec<Line> = vec![];
    let data_first = !data.is_empty() && ch.chance(1, 2);
    if data_first {
        lines.extend(data.clone());
        lines.push(Line::Dir(".text".into(), vec![]));
    }
    for b in &blocks {
        for l in &b.labels {
            lines.push(Line::Label(l.clone()));
        }
        if !b.labels.is_empty() && !o.c03_domain && ch.chance(1, 14) {
            // a directive between the label(s) and the instruction they name
            lines.push(Line::Dir(".align".into(), vec![i(2)]));
        } else if !b.labels.is_empty() && ch.chance(1, 20) {
            // an inline data block between the label(s) and the code they name
            lines.push(Line::Dir(".data".into(), vec![]));
            lines.push(Line::Label(format!("inl{}", lines.len())));
            lines.push(Line::Dir(".word".into(), vec![i(ch.int_in(0, 9))]));
            lines.push(Line::Dir(".text".into(), vec![]));
        }
        lines.extend(b.body.iter().cloned());
        lines.extend(b.term.iter().cloned());
    }
    if !data.is_empty() && !data_first {
        lines.extend(data);
    }
    if o.faults {
        inject_faults(&mut lines, ch, &mut info, &all_labels, &data_labels);
    }
    (lines, info)
}

/// Functions that share code in a structured way: two or three "donor" functions, each with one or
/// two labelled tails in front of its own return, and "visitor" functions that branch or jump into
/// tails of different donors (so a visitor reaches the returns of several other functions, and a
/// tail belongs to functions with different exits). Visitors stand before, between or behind the donors.
pub fn shared_tails(ch: &mut Choices) -> (Vec<Line>, WildInfo) {
    let n_donors = 2 + ch.below(2);
    let n_visitors = 1 + ch.below(2);
    let mut info = WildInfo {
        n_funcs: n_donors + n_visitors,
        cross_region: true,
        ..Default::default()
    };
    let mut tails: Vec<Vec<String>> = vec![];
    let mut funcs: Vec<Vec<Line>> = vec![];
    for d in 0..n_donors {
        let name = format!("donor{d}");
        let mut f = vec![Line::Label(name.clone())];
        f.extend(syn::plain_ins(ch, &[]));
        let mut ts = vec![];
        for t in 0..1 + ch.below(2) {
            let l = format!("{name}_tail{t}");
            if ch.chance(1, 3) {
                // the tail is also reached by a branch of its own function
                f.insert(1, ins(ch.pick_str(&syn::BRANCH2), vec![r(syn::any_reg(ch)), Opd::L(l.clone())]));
            }
            f.push(Line::Label(l.clone()));
            f.extend(syn::plain_ins(ch, &[]));
            ts.push(l);
        }
        f.push(ins("ret", vec![]));
        tails.push(ts);
        funcs.push(f);
    }
    let mut visitors: Vec<Vec<Line>> = vec![];
    for v in 0..n_visitors {
        let name = format!("visitor{v}");
        let mut f = vec![Line::Label(name.clone())];
        f.extend(syn::plain_ins(ch, &[]));
        // enter tails of at least two different donors
        let mut order: Vec<usize> = (0..n_donors).collect();
        if ch.chance(1, 2) {
            order.reverse();
        }
        let k = 2 + ch.below(n_donors - 1);
        for (j, d) in order.iter().take(k).enumerate() {
            let t = ch.pick(&tails[*d]).clone();
            let last = j + 1 == k;
            if last && ch.chance(2, 3) {
                f.push(ins("j", vec![Opd::L(t)]));
            } else {
                f.push(ins(ch.pick_str(&syn::BRANCH2), vec![r(syn::any_reg(ch)), Opd::L(t)]));
                f.extend(syn::plain_ins(ch, &[]));
                if last {
                    info.multi_return = true;
                    f.push(ins("ret", vec![]));
                }
            }
        }
        visitors.push(f);
    }
    // main calls everything, in some order
    let mut lines = vec![Line::Label("main".into())];
    let mut names: Vec<String> = (0..n_donors).map(|d| format!("donor{d}")).chain((0..n_visitors).map(|v| format!("visitor{v}"))).collect();
    for j in (1..names.len()).rev() {
        let q = ch.below(j + 1);
        names.swap(j, q);
    }
    for n in &names {
        lines.push(ins(ch.pick_str(&["jal", "call"]), vec![Opd::L(n.clone())]));
        info.calls += 1;
    }
    lines.push(ins("li", vec![r(A7), i(10)]));
    lines.push(ins("ecall", vec![]));
    // interleave visitors among the donors
    let mut all: Vec<Vec<Line>> = funcs;
    for v in visitors {
        let at = ch.below(all.len() + 1);
        all.insert(at, v);
    }
    for f in all {
        lines.extend(f);
    }
    (lines, info)
}

/// Install an interrupt handler through `utvec` (it is never called) and append its body. The
/// sound one saves the two temporaries it uses and ends in `uret`; with `mixed` it also has a path
/// that leaves through a plain `ret`, and a second `uret`.
pub fn add_handler(lines: &mut Vec<Line>, ch: &mut Choices, name: &str, mixed: bool) -> bool {
    let Some(first_ins) = lines.iter().position(|l| matches!(l, Line::Ins(_))) else { return false };
    if lines.iter().any(|l| matches!(l, Line::Label(n) if n == name)) {
        return false;
    }
    lines.insert(first_ins, ins("csrrw", vec![r(ZERO), Opd::C("utvec".into()), r(5)]));
    lines.insert(first_ins, ins("la", vec![r(5), Opd::L(name.into())]));
    lines.push(Line::Dir(".text".into(), vec![]));
    lines.push(Line::Label(name.into()));
    let (a, b) = *ch.pick(&[(5u8, 31u8), (6, 28), (31, 7), (29, 30)]);
    lines.push(ins("addi", vec![r(SP), r(SP), i(-8)]));
    lines.push(ins("sw", vec![r(a), m(0, SP)]));
    lines.push(ins("sw", vec![r(b), m(4, SP)]));
    lines.push(ins("li", vec![r(a), i(ch.int_in(1, 9))]));
    lines.push(ins("addi", vec![r(b), r(a), i(1)]));
    if mixed {
        let alt = format!("{name}_alt");
        let alt2 = format!("{name}_alt2");
        lines.push(ins(ch.pick_str(&syn::BRANCH2), vec![r(b), Opd::L(alt.clone())]));
        lines.push(ins(ch.pick_str(&syn::BRANCH2), vec![r(a), Opd::L(alt2.clone())]));
        lines.push(ins("csrrw", vec![r(ZERO), Opd::C("uscratch".into()), r(b)]));
        lines.push(ins("lw", vec![r(a), m(0, SP)]));
        lines.push(ins("lw", vec![r(b), m(4, SP)]));
        lines.push(ins("addi", vec![r(SP), r(SP), i(8)]));
        lines.push(ins("uret", vec![]));
        lines.push(Line::Label(alt));
        lines.push(ins("lw", vec![r(a), m(0, SP)]));
        lines.push(ins("lw", vec![r(b), m(4, SP)]));
        lines.push(ins("addi", vec![r(SP), r(SP), i(8)]));
        lines.push(ins(if ch.chance(1, 2) { "ret" } else { "uret" }, vec![]));
        lines.push(Line::Label(alt2));
        lines.push(ins("lw", vec![r(a), m(0, SP)]));
        lines.push(ins("lw", vec![r(b), m(4, SP)]));
        lines.push(ins("addi", vec![r(SP), r(SP), i(8)]));
        lines.push(ins(if ch.chance(1, 2) { "ret" } else { "uret" }, vec![]));
    } else {
        lines.push(ins("csrrw", vec![r(ZERO), Opd::C("uscratch".into()), r(b)]));
        lines.push(ins("lw", vec![r(a), m(0, SP)]));
        lines.push(ins("lw", vec![r(b), m(4, SP)]));
        lines.push(ins("addi", vec![r(SP), r(SP), i(8)]));
        lines.push(ins("uret", vec![]));
    }
    true
}

pub const FAULT_KINDS: [&str; 18] = [
    "interrupt-handler",
    "handler-without-return",
    "duplicate-label-at-end",
    "duplicate-label-in-trailing-data",
    "undefined-jal-other-link",
    "label-at-eof-jal-other-link",
    "undefined-jump",
    "undefined-branch",
    "undefined-call",
    "undefined-la",
    "undefined-load",
    "several-undefined",
    "duplicate-code-label",
    "duplicate-function-label",
    "label-at-eof-jump-target",
    "label-at-eof-unused",
    "function-without-return",
    "call-data-label",
];

fn inject_faults(
    lines: &mut Vec<Line>,
    ch: &mut Choices,
    info: &mut WildInfo,
    labels: &[String],
    data_labels: &[String],
) {
    let n = 1 + ch.below(2);
    for _ in 0..n {
        let kind = ch.pick_str(&FAULT_KINDS);
        // position among instructions
        let ins_pos: Vec<usize> = lines
            .iter()
            .enumerate()
            .filter(|(_, l)| matches!(l, Line::Ins(_)))
            .map(|(k, _)| k)
            .collect();
        if ins_pos.is_empty() {
            return;
        }
        let at = *ch.pick(&ins_pos);
        let undef = |k: usize| format!("nowhere{k}");
        let applied = match kind {
            "interrupt-handler" | "handler-without-return" => {
                // a handler installed through utvec (never called); the sound one saves what it uses and ends in uret
                let first_ins = ins_pos[0];
                let name = if kind == "interrupt-handler" { "on_interrupt" } else { "on_trap" };
                if lines.iter().any(|l| matches!(l, Line::Label(n) if n == name)) {
                    false
                } else {
                    lines.insert(first_ins, ins("csrrw", vec![r(ZERO), Opd::C("utvec".into()), r(5)]));
                    lines.insert(first_ins, ins("la", vec![r(5), Opd::L(name.into())]));
                    lines.push(Line::Dir(".text".into(), vec![]));
                    lines.push(Line::Label(name.into()));
                    if kind == "interrupt-handler" {
                        let (a, b) = *ch.pick(&[(5u8, 31u8), (6, 28), (31, 7), (29, 30)]);
                        lines.push(ins("addi", vec![r(SP), r(SP), i(-8)]));
                        lines.push(ins("sw", vec![r(a), m(0, SP)]));
                        lines.push(ins("sw", vec![r(b), m(4, SP)]));
                        lines.push(ins("li", vec![r(a), i(ch.int_in(1, 9))]));
                        lines.push(ins("addi", vec![r(b), r(a), i(1)]));
                        lines.push(ins("csrrw", vec![r(ZERO), Opd::C("uscratch".into()), r(b)]));
                        lines.push(ins("lw", vec![r(a), m(0, SP)]));
                        lines.push(ins("lw", vec![r(b), m(4, SP)]));
                        lines.push(ins("addi", vec![r(SP), r(SP), i(8)]));
                        lines.push(ins("uret", vec![]));
                    } else {
                        lines.push(ins("addi", vec![r(10), r(10), i(1)]));
                        lines.push(ins("j", vec![Opd::L(name.into())]));
                    }
                    true
                }
            }
            "duplicate-label-at-end" | "duplicate-label-in-trailing-data" => {
                if labels.is_empty() {
                    false
                } else {
                    let l = ch.pick(labels).clone();
                    if kind == "duplicate-label-in-trailing-data" {
                        lines.push(Line::Dir(".data".into(), vec![]));
                        lines.push(Line::Label(l));
                        lines.push(Line::Dir(".word".into(), vec![i(1)]));
                    } else {
                        lines.push(Line::Label(l));
                    }
                    true
                }
            }
            "undefined-jump" => {
                lines.insert(at, ins("j", vec![Opd::L(undef(ch.below(3)))]));
                true
            }
            "undefined-jal-other-link" => {
                lines.insert(at, ins("jal", vec![r(5), Opd::L(undef(ch.below(3)))]));
                true
            }
            "label-at-eof-jal-other-link" => {
                lines.insert(at, ins("jal", vec![r(6), Opd::L("the_end2".into())]));
                lines.push(Line::Label("the_end2".into()));
                true
            }
            "undefined-branch" => {
                lines.insert(
                    at,
                    ins("beq", vec![r(10), r(11), Opd::L(undef(ch.below(3)))]),
                );
                true
            }
            "undefined-call" => {
                lines.insert(at, ins("jal", vec![Opd::L(undef(ch.below(3)))]));
                true
            }
            "undefined-la" => {
                lines.insert(at, ins("la", vec![r(5), Opd::L(undef(ch.below(3)))]));
                true
            }
            "undefined-load" => {
                lines.insert(at, ins("lw", vec![r(5), Opd::L(undef(ch.below(3)))]));
                true
            }
            "several-undefined" => {
                lines.insert(at, ins("j", vec![Opd::L("nowhereA".into())]));
                lines.insert(at, ins("la", vec![r(5), Opd::L("nowhereB".into())]));
                lines.insert(at, ins("bnez", vec![r(5), Opd::L("nowhereC".into())]));
                // up to three more, used first and sorting last
                for name in ["zz_last", "yy_more", "xx_other"].iter().take(ch.below(4)) {
                    lines.insert(at, ins("jal", vec![Opd::L((*name).into())]));
                }
                true
            }
            "duplicate-code-label" | "duplicate-function-label" => {
                let pool: Vec<&String> = labels
                    .iter()
                    .filter(|l| (kind == "duplicate-function-label") == l.starts_with("fn"))
                    .collect();
                if pool.is_empty() {
                    false
                } else {
                    let l = (*ch.pick(&pool)).clone();
                    lines.insert(at, Line::Label(l));
                    true
                }
            }
            "label-at-eof-jump-target" => {
                lines.insert(at, ins("beqz", vec![r(10), Opd::L("the_end".into())]));
                lines.push(Line::Label("the_end".into()));
                true
            }
            "label-at-eof-unused" => {
                lines.push(Line::Label("unused_end".into()));
                true
            }
            "function-without-return" => {
                lines.insert(at, ins("jal", vec![Opd::L("noret".into())]));
                lines.push(Line::Label("noret".into()));
                lines.push(ins("addi", vec![r(10), r(10), i(1)]));
                if ch.chance(1, 2) {
                    lines.push(ins("j", vec![Opd::L("noret".into())]));
                } else {
                    lines.push(ins("li", vec![r(A7), i(10)]));
                    lines.push(ins("ecall", vec![]));
                }
                true
            }
            _ => {
                if data_labels.is_empty() {
                    false
                } else {
                    lines.insert(at, ins("jal", vec![Opd::L(ch.pick(data_labels).clone())]));
                    true
                }
            }
        };
        if applied {
            info.faults.push(kind.to_string());
        }
    }
}
