//! ABI-safe, internally wild programs (C01, dynamic half of C02).
//!
//! Every function preserves sp, ra and the saved registers it writes and
//! never writes at or above its entry stack pointer — so "callees respect
//! the convention" holds by construction — but inside a function anything in
//! the C01 subset goes. Each wild feature is a switch.

use crate::choice::Choices;
use crate::gen::syn;
use crate::model::*;
use serde::{Deserialize, Serialize};

#[derive(Clone, Debug, Serialize, Deserialize)]
pub struct AbiOpts {
    pub max_funcs: usize,
    pub max_stmts: usize,
    pub subword: bool,
    pub redzone: bool,
    pub sp_adjust: bool,
    pub sw_zero: bool,
    pub ecall_results: bool,
    pub data: bool,
    pub loops: bool,
    pub early_return: bool,
    pub sp_arith: bool,
    /// main may hand over to a function by a jump (not convention-conforming for the callee's
    /// temporaries: only for checks that do not assume that)
    #[serde(default)]
    pub handoff: bool,
}

impl AbiOpts {
    pub fn all(max_funcs: usize, max_stmts: usize) -> Self {
        AbiOpts {
            max_funcs,
            max_stmts,
            subword: true,
            redzone: true,
            sp_adjust: true,
            sw_zero: true,
            ecall_results: true,
            data: true,
            loops: true,
            early_return: true,
            sp_arith: true,
            handoff: false,
        }
    }
}

#[derive(Clone, Debug, Default, Serialize, Deserialize)]
pub struct AbiInfo {
    pub n_funcs: usize,
    pub calls: usize,
    pub loops: usize,
    pub diamonds: usize,
    pub stack_stores: usize,
    pub stack_loads: usize,
    pub subword: usize,
    pub redzone: usize,
    pub sp_adjusts: usize,
    pub ecall_results: usize,
    pub early_returns: usize,
    pub recursion: bool,
}

struct Fb<'a, 'c> {
    ch: &'a mut Choices<'c>,
    o: &'a AbiOpts,
    out: Vec<Line>,
    name: String,
    is_main: bool,
    /// bytes between the entry sp and the current sp
    cur: i64,
    /// (offset from the *frame base* = entry_sp - frame) of local word slots
    locals: Vec<i64>,
    frame: i64,
    saves: Vec<(u8, i64)>,
    /// registers the body may write
    writable: Vec<u8>,
    reserved: Vec<u8>,
    callees: Vec<String>,
    data: Vec<String>,
    labels: usize,
    info: &'a mut AbiInfo,
    depth: usize,
}

const CONSTS: [i64; 16] = [
    0, 1, -1, 2, 5, 7, 31, 32, 100, 2047, -2048, 4096, 0x7fff_ffff, -0x8000_0000, 0x1234_5678, -7,
];

impl Fb<'_, '_> {
    fn fresh_label(&mut self, what: &str) -> String {
        self.labels += 1;
        format!("{}_{}{}", self.name, what, self.labels)
    }
    fn wreg(&mut self) -> u8 {
        let pool: Vec<u8> = self
            .writable
            .iter()
            .copied()
            .filter(|r| !self.reserved.contains(r))
            .collect();
        *self.ch.pick(&pool)
    }
    fn rreg(&mut self) -> u8 {
        // any register may be read
        match self.ch.weighted(&[6, 2, 1]) {
            0 => {
                let w = self.writable.clone();
                *self.ch.pick(&w)
            }
            1 => syn::any_reg(self.ch),
            _ => *self.ch.pick(&[ZERO, SP, RA]),
        }
    }
    /// offset of local slot `k` relative to the current sp
    fn local_off(&self, k: usize) -> i64 {
        // frame base = entry_sp - frame; current sp = entry_sp - cur
        self.locals[k] + (self.cur - self.frame)
    }
    fn emit(&mut self, l: Line) {
        self.out.push(l);
    }

    fn stmt(&mut self) {
        let o = self.o;
        let has_locals = !self.locals.is_empty();
        let w = [
            8,                                                     // 0 li
            8,                                                     // 1 alu
            if has_locals { 7 } else { 0 },                        // 2 sw local
            if has_locals { 7 } else { 0 },                        // 3 lw local
            if has_locals && o.subword { 2 } else { 0 },           // 4 subword
            if has_locals && o.sw_zero { 1 } else { 0 },           // 5 sw zero
            if has_locals { 3 } else { 0 },                        // 6 store then redefine then reload
            if o.sp_adjust && self.depth < 2 { 2 } else { 0 },     // 7 nested sp adjustment
            if o.redzone { 2 } else { 0 },                         // 8 red zone
            if o.data && !self.data.is_empty() { 2 } else { 0 },   // 9 data traffic
            2,                                                     // 10 ecall
            if self.callees.is_empty() { 0 } else { 4 },           // 11 call
            if self.depth < 3 { 4 } else { 0 },                    // 12 diamond
            if o.loops && self.depth < 2 { 2 } else { 0 },         // 13 loop
            if o.early_return && !self.is_main && self.depth >= 1 && self.depth < 3 { 1 } else { 0 }, // 14
            if o.sp_arith { 2 } else { 0 },                        // 15 arithmetic on sp copies
            4,                                                     // 16 constant folding chain on boundary values
            1,                                                     // 17 arithmetic write to the zero register
        ];
        match self.ch.weighted(&w) {
            0 => {
                let rd = self.wreg();
                let c = match self.ch.weighted(&[3, 3]) {
                    0 => self.ch.int_in(0, 9),
                    _ => *self.ch.pick(&CONSTS),
                };
                self.emit(ins("li", vec![r(rd), i(c)]));
            }
            1 => {
                let rd = self.wreg();
                if self.ch.chance(1, 2) {
                    let op = self.ch.pick_str(&syn::ARITH);
                    let (a, b) = (self.rreg(), self.rreg());
                    self.emit(ins(op, vec![r(rd), r(a), r(b)]));
                } else if self.ch.chance(1, 4) {
                    let op = self.ch.pick_str(&syn::SHIFTI);
                    let a = self.rreg();
                    let k = self.ch.int_in(0, 31);
                    self.emit(ins(op, vec![r(rd), r(a), i(k)]));
                } else if self.ch.chance(1, 5) {
                    let op = self.ch.pick_str(&syn::UNARY);
                    let a = self.rreg();
                    self.emit(ins(op, vec![r(rd), r(a)]));
                } else {
                    let op = self.ch.pick_str(&syn::IARITH);
                    let a = self.rreg();
                    let k = if self.ch.chance(1, 3) {
                        *self.ch.pick(&CONSTS)
                    } else {
                        self.ch.int_in(-8, 8)
                    };
                    self.emit(ins(op, vec![r(rd), r(a), i(k)]));
                }
            }
            2 => {
                let k = self.ch.below(self.locals.len());
                let rs = self.rreg();
                let off = self.local_off(k);
                self.info.stack_stores += 1;
                self.emit(ins("sw", vec![r(rs), m(off, SP)]));
            }
            3 => {
                let k = self.ch.below(self.locals.len());
                let rd = self.wreg();
                let off = self.local_off(k);
                self.info.stack_loads += 1;
                self.emit(ins("lw", vec![r(rd), m(off, SP)]));
            }
            4 => {
                let k = self.ch.below(self.locals.len());
                let off = self.local_off(k);
                self.info.subword += 1;
                if self.ch.chance(1, 2) {
                    let rs = self.rreg();
                    if self.ch.chance(1, 2) {
                        let b = self.ch.int_in(0, 3);
                        self.emit(ins("sb", vec![r(rs), m(off + b, SP)]));
                    } else {
                        let b = 2 * self.ch.int_in(0, 1);
                        self.emit(ins("sh", vec![r(rs), m(off + b, SP)]));
                    }
                } else {
                    let rd = self.wreg();
                    let mn = self.ch.pick_str(&["lb", "lbu", "lh", "lhu"]);
                    let b = if mn.starts_with("lb") {
                        self.ch.int_in(0, 3)
                    } else {
                        2 * self.ch.int_in(0, 1)
                    };
                    self.emit(ins(mn, vec![r(rd), m(off + b, SP)]));
                }
            }
            5 => {
                let k = self.ch.below(self.locals.len());
                let off = self.local_off(k);
                self.info.stack_stores += 1;
                self.emit(ins("sw", vec![r(ZERO), m(off, SP)]));
            }
            6 => {
                let k = self.ch.below(self.locals.len());
                let off = self.local_off(k);
                let rs = self.wreg();
                let rd = self.wreg();
                self.info.stack_stores += 1;
                self.info.stack_loads += 1;
                if self.ch.chance(1, 2) {
                    let c = self.ch.int_in(0, 9);
                    self.emit(ins("li", vec![r(rs), i(c)]));
                }
                self.emit(ins("sw", vec![r(rs), m(off, SP)]));
                let c = *self.ch.pick(&CONSTS);
                self.emit(ins("li", vec![r(rs), i(c)]));
                if self.ch.chance(1, 2) {
                    self.stmt_simple();
                }
                self.emit(ins("lw", vec![r(rd), m(off, SP)]));
            }
            7 => {
                let k = 4 * self.ch.int_in(1, 4);
                self.info.sp_adjusts += 1;
                self.emit(ins("addi", vec![r(SP), r(SP), i(-k)]));
                self.cur += k;
                // the new area can be used as extra locals
                let extra: Vec<i64> = (0..k / 4).map(|j| self.frame - self.cur + 4 * j).collect();
                let saved_len = self.locals.len();
                // offsets are stored relative to the frame base; here base-relative = (entry_sp - cur + 4j) - (entry_sp - frame)
                self.locals.extend(extra);
                self.depth += 1;
                let n = 1 + self.ch.below(3);
                for _ in 0..n {
                    self.stmt();
                }
                self.depth -= 1;
                self.locals.truncate(saved_len);
                self.cur -= k;
                self.emit(ins("addi", vec![r(SP), r(SP), i(k)]));
            }
            8 => {
                // store below the current sp, maybe call, read it back
                let off = -4 * self.ch.int_in(1, 3);
                let rs = self.rreg();
                let rd = self.wreg();
                self.info.redzone += 1;
                self.emit(ins("sw", vec![r(rs), m(off, SP)]));
                if !self.callees.is_empty() && self.ch.chance(1, 2) {
                    let f = self.callees.clone();
                    let f = self.ch.pick(&f).clone();
                    self.info.calls += 1;
                    self.emit(ins("jal", vec![Opd::L(f)]));
                } else if self.ch.chance(1, 2) {
                    self.stmt_simple();
                }
                self.emit(ins("lw", vec![r(rd), m(off, SP)]));
            }
            9 => {
                let d = self.data.clone();
                let lab = self.ch.pick(&d).clone();
                let ra_ = self.wreg();
                self.emit(ins("la", vec![r(ra_), Opd::L(lab)]));
                let off = 4 * self.ch.int_in(0, 2);
                if self.ch.chance(1, 2) {
                    let rd = self.wreg();
                    self.emit(ins("lw", vec![r(rd), m(off, ra_)]));
                } else {
                    let rs = self.rreg();
                    self.emit(ins("sw", vec![r(rs), m(off, ra_)]));
                }
            }
            10 => {
                let with_result = self.o.ecall_results && self.ch.chance(1, 2);
                let n = if with_result {
                    self.info.ecall_results += 1;
                    *self.ch.pick(&[5i64, 41, 30, 42, 12, 9, 17, 43, 50, 54, 62, 63, 64, 1024])
                } else {
                    *self.ch.pick(&[1i64, 11, 34, 35, 4, 8, 31, 32, 33, 36, 40, 55, 56, 57, 59])
                };
                if self.ch.chance(1, 2) {
                    let c = self.ch.int_in(0, 50);
                    self.emit(ins("li", vec![r(A0), i(c)]));
                }
                if self.ch.chance(1, 5) && self.writable.contains(&5) {
                    self.emit(ins("li", vec![r(5), i(n)]));
                    self.emit(ins("mv", vec![r(A7), r(5)]));
                } else {
                    self.emit(ins("li", vec![r(A7), i(n)]));
                }
                self.emit(ins("ecall", vec![]));
            }
            11 => {
                let f = self.callees.clone();
                let f = self.ch.pick(&f).clone();
                if f == self.name {
                    self.info.recursion = true;
                }
                self.info.calls += 1;
                if self.ch.chance(1, 2) {
                    let c = self.ch.int_in(0, 9);
                    self.emit(ins("li", vec![r(A0), i(c)]));
                }
                let form = self.ch.below(3);
                self.emit(match form {
                    0 => ins("jal", vec![Opd::L(f)]),
                    1 => ins("call", vec![Opd::L(f)]),
                    _ => ins("jal", vec![r(RA), Opd::L(f)]),
                });
            }
            12 => {
                self.info.diamonds += 1;
                let skip = self.fresh_label("else");
                let join = self.fresh_label("join");
                let (a, b) = (self.rreg(), self.rreg());
                if self.ch.chance(1, 2) {
                    let op = self.ch.pick_str(&syn::BRANCH3);
                    self.emit(ins(op, vec![r(a), r(b), Opd::L(skip.clone())]));
                } else {
                    let op = self.ch.pick_str(&syn::BRANCH2);
                    self.emit(ins(op, vec![r(a), Opd::L(skip.clone())]));
                }
                self.depth += 1;
                let n = 1 + self.ch.below(3);
                for _ in 0..n {
                    self.stmt();
                }
                let with_else = self.ch.chance(1, 2);
                if with_else {
                    self.emit(ins("j", vec![Opd::L(join.clone())]));
                }
                self.emit(Line::Label(skip));
                if with_else {
                    let n = 1 + self.ch.below(2);
                    for _ in 0..n {
                        self.stmt();
                    }
                    self.emit(Line::Label(join));
                }
                self.depth -= 1;
            }
            13 => {
                // counted loop on a reserved saved register
                let pool: Vec<u8> = self
                    .writable
                    .iter()
                    .copied()
                    .filter(|r| SAVED.contains(r) && !self.reserved.contains(r))
                    .collect();
                if pool.is_empty() {
                    self.stmt_simple();
                    return;
                }
                let cnt = *self.ch.pick(&pool);
                self.info.loops += 1;
                let top = self.fresh_label("loop");
                let n = self.ch.int_in(1, 3);
                self.emit(ins("li", vec![r(cnt), i(n)]));
                self.emit(Line::Label(top.clone()));
                self.reserved.push(cnt);
                self.depth += 1;
                let k = 1 + self.ch.below(3);
                for _ in 0..k {
                    self.stmt();
                }
                self.depth -= 1;
                self.reserved.pop();
                self.emit(ins("addi", vec![r(cnt), r(cnt), i(-1)]));
                self.emit(ins("bnez", vec![r(cnt), Opd::L(top)]));
            }
            14 => {
                self.info.early_returns += 1;
                let skip = self.fresh_label("noret");
                let a = self.rreg();
                self.emit(ins("beqz", vec![r(a), Opd::L(skip.clone())]));
                self.epilogue();
                self.emit(Line::Label(skip));
            }
            16 => {
                // two known constants through every operator (boundary operands included)
                let a = self.wreg();
                let b = self.wreg();
                let d = self.wreg();
                let (ca, cb) = (*self.ch.pick(&CONSTS), *self.ch.pick(&CONSTS));
                self.emit(ins("li", vec![r(a), i(ca)]));
                self.emit(ins("li", vec![r(b), i(cb)]));
                let op = self.ch.pick_str(&syn::ARITH);
                self.emit(ins(op, vec![r(d), r(a), r(b)]));
                if self.ch.chance(1, 2) {
                    let op2 = self.ch.pick_str(&syn::ARITH);
                    let e = self.wreg();
                    self.emit(ins(op2, vec![r(e), r(d), r(b)]));
                }
            }
            17 => {
                let a = self.rreg();
                match self.ch.below(3) {
                    0 => {
                        let k = self.ch.int_in(-8, 8);
                        self.emit(ins("addi", vec![r(ZERO), r(a), i(k)]));
                    }
                    1 => {
                        let b = self.rreg();
                        self.emit(ins("add", vec![r(ZERO), r(a), r(b)]));
                    }
                    _ => {
                        let c = *self.ch.pick(&CONSTS);
                        self.emit(ins("li", vec![r(ZERO), i(c)]));
                    }
                }
                // and a use of zero afterwards
                let d = self.wreg();
                self.emit(ins("addi", vec![r(d), r(ZERO), i(1)]));
            }
            _ => {
                // arithmetic on copies of sp
                let rd = self.wreg();
                match self.ch.below(4) {
                    0 => self.emit(ins("mv", vec![r(rd), r(SP)])),
                    1 => {
                        let k = self.ch.int_in(-16, 16);
                        self.emit(ins("addi", vec![r(rd), r(SP), i(k)]))
                    }
                    2 => self.emit(ins("neg", vec![r(rd), r(SP)])),
                    _ => {
                        let c = self.wreg();
                        let k = self.ch.int_in(0, 9);
                        self.emit(ins("li", vec![r(c), i(k)]));
                        let op = self.ch.pick_str(&["sub", "add"]);
                        if self.ch.chance(1, 2) {
                            self.emit(ins(op, vec![r(rd), r(c), r(SP)]));
                        } else {
                            self.emit(ins(op, vec![r(rd), r(SP), r(c)]));
                        }
                    }
                }
            }
        }
    }

    fn stmt_simple(&mut self) {
        let rd = self.wreg();
        let a = self.rreg();
        let k = self.ch.int_in(-4, 4);
        self.emit(ins("addi", vec![r(rd), r(a), i(k)]));
    }

    fn prologue(&mut self) {
        if self.frame == 0 {
            return;
        }
        if self.frame >= 8 && self.ch.chance(1, 5) {
            let a = 4 * self.ch.int_in(1, self.frame / 4 - 1);
            self.emit(ins("addi", vec![r(SP), r(SP), i(-a)]));
            self.emit(ins("addi", vec![r(SP), r(SP), i(-(self.frame - a))]));
        } else {
            self.emit(ins("addi", vec![r(SP), r(SP), i(-self.frame)]));
        }
        self.cur = self.frame;
        for (reg, off) in self.saves.clone() {
            self.emit(ins("sw", vec![r(reg), m(off, SP)]));
        }
    }

    /// restore and leave (uses the current sp offset, so it can be emitted anywhere)
    fn epilogue(&mut self) {
        let adj = self.cur - self.frame;
        for (reg, off) in self.saves.clone() {
            self.emit(ins("lw", vec![r(reg), m(off + adj, SP)]));
        }
        if self.o.handoff && self.is_main && self.cur != 0 && !self.callees.is_empty() && self.ch.chance(1, 6) {
            // main hands over to a function it also calls, without giving up its frame: the function
            // is entered by a call (entry sp = sp) and by a jump from code that knows its own slots
            let f = self.callees.clone();
            let f = self.ch.pick(&f).clone();
            self.emit(ins("jal", vec![Opd::L(f.clone())]));
            self.emit(ins("j", vec![Opd::L(f)]));
            return;
        }
        if self.cur != 0 {
            self.emit(ins("addi", vec![r(SP), r(SP), i(self.cur)]));
        }
        if self.is_main {
            self.emit(ins("li", vec![r(A7), i(10)]));
            self.emit(ins("ecall", vec![]));
        } else {
            self.emit(ins("ret", vec![]));
        }
    }
}

pub fn program(ch: &mut Choices, o: &AbiOpts) -> (Vec<Line>, AbiInfo) {
    let mut info = AbiInfo::default();
    let n_funcs = ch.below(o.max_funcs + 1);
    info.n_funcs = n_funcs;
    let names: Vec<String> = (0..=n_funcs)
        .map(|k| if k == 0 { "main".to_string() } else { format!("f{k}") })
        .collect();
    let mut data_labels = vec![];
    let mut data_lines = vec![];
    if o.data && ch.chance(1, 2) {
        data_lines.push(Line::Dir(".data".into(), vec![]));
        for k in 0..1 + ch.below(2) {
            let n = format!("arr{k}");
            data_lines.push(Line::Label(n.clone()));
            data_labels.push(n);
            data_lines.push(Line::Dir(
                ".word".into(),
                (0..3).map(|_| i(ch.int_in(-5, 50))).collect(),
            ));
        }
    }
    let mut lines = vec![];
    if !data_lines.is_empty() && ch.chance(1, 2) {
        lines.extend(data_lines.clone());
        lines.push(Line::Dir(".text".into(), vec![]));
        data_lines.clear();
    }
    for (k, name) in names.iter().enumerate() {
        let is_main = k == 0;
        // callees: later functions, sometimes any function (recursion, mutual recursion)
        let callees: Vec<String> = if names.len() == 1 {
            vec![]
        } else if ch.chance(1, 6) {
            names[1..].to_vec()
        } else {
            names[k + 1..].to_vec()
        };
        let may_call = !callees.is_empty();
        let n_saved = ch.below(4);
        let mut saved: Vec<u8> = vec![];
        for _ in 0..n_saved {
            let s = *ch.pick(&SAVED);
            if !saved.contains(&s) {
                saved.push(s);
            }
        }
        let n_local = ch.below(4);
        let pad = ch.below(2);
        let mut slots: Vec<i64> = (0..(saved.len() + may_call as usize + n_local + pad) as i64)
            .map(|j| 4 * j)
            .collect();
        // shuffle slot order
        for j in (1..slots.len()).rev() {
            let q = ch.below(j + 1);
            slots.swap(j, q);
        }
        let frame = 4 * slots.len() as i64;
        let mut it = slots.into_iter();
        let mut saves: Vec<(u8, i64)> = vec![];
        if may_call && !is_main {
            saves.push((RA, it.next().unwrap()));
        } else if may_call {
            // main does not need ra, but saving it is harmless and common
            let s = it.next().unwrap();
            if ch.chance(1, 2) {
                saves.push((RA, s));
            }
        }
        for s in &saved {
            saves.push((*s, it.next().unwrap()));
        }
        let locals: Vec<i64> = it.take(n_local).collect();
        let mut writable: Vec<u8> = TEMPS.to_vec();
        writable.extend_from_slice(&ARGS);
        writable.extend_from_slice(&saved);
        let n_stmts = 1 + ch.below(o.max_stmts);
        lines.push(Line::Label(name.clone()));
        let mut fb = Fb {
            ch,
            o,
            out: vec![],
            name: name.clone(),
            is_main,
            cur: 0,
            locals,
            frame,
            saves,
            writable,
            reserved: vec![],
            callees,
            data: data_labels.clone(),
            labels: 0,
            info: &mut info,
            depth: 0,
        };
        fb.prologue();
        for _ in 0..n_stmts {
            fb.stmt();
        }
        fb.epilogue();
        lines.extend(fb.out);
    }
    lines.extend(data_lines);
    (lines, info)
}
