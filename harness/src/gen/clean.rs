//! Convention-conforming programs, by construction (C04; base programs for
//! C05, C13, C14, C15, C18).
//!
//! Discipline that makes every program conforming by the statement's own list:
//! * named locals live in saved registers (non-leaf functions; saved in the
//!   prologue, restored in every epilogue) or in temporaries (leaf functions);
//!   every local is initialised before any branch and afterwards only updated
//!   by read-modify-write, and all locals are folded into the result at the
//!   end, so every value computed is used;
//! * temporaries are defined and consumed within one statement, never across
//!   a call or ecall; argument registers are set right before a call / ecall
//!   and results are consumed right after it;
//! * a callee reads exactly its `arity` argument registers, callers pass
//!   exactly those; a function has a result iff every caller reads it;
//! * main ends with an exit ecall, code stays in .text, ecall numbers are constants.

use crate::choice::Choices;
use crate::model::*;
use serde::{Deserialize, Serialize};

#[derive(Clone, Debug, Serialize, Deserialize)]
pub struct CleanOpts {
    pub max_funcs: usize,
    pub max_stmts: usize,
    pub mv_into_a7: bool,
    pub two_step_frame: bool,
    pub early_return: bool,
    pub recursion: bool,
    pub data_traffic: bool,
    pub ecall_results: bool,
    pub pseudo_branches: bool,
    pub main_frame: bool,
    pub spills: bool,
    pub passthrough: bool,
}

impl CleanOpts {
    pub fn all(max_funcs: usize, max_stmts: usize) -> Self {
        CleanOpts {
            max_funcs,
            max_stmts,
            mv_into_a7: true,
            two_step_frame: true,
            early_return: true,
            recursion: true,
            data_traffic: true,
            ecall_results: true,
            pseudo_branches: true,
            main_frame: true,
            spills: true,
            passthrough: true,
        }
    }
}

#[derive(Clone, Debug, Default, Serialize, Deserialize)]
pub struct FuncMeta {
    pub name: String,
    pub arity: usize,
    pub has_result: bool,
    pub leaf: bool,
    /// saved registers written by the function (saved in the prologue)
    pub saved: Vec<u8>,
    pub frame: i64,
    /// model line indices: first line (label) and one past the last
    pub span: (usize, usize),
    /// model line indices of `addi sp, sp, +frame` in epilogues
    pub epilogue_sp: Vec<usize>,
    /// (save line, restore lines) for ra
    pub ra_save: Option<usize>,
    pub ra_restores: Vec<usize>,
    /// lines of calls made by this function
    pub call_lines: Vec<usize>,
    /// frame access lines (sw/lw through sp) with their offset
    pub frame_access: Vec<usize>,
    /// registers holding the named locals
    pub locals: Vec<u8>,
    /// first line after the initialisation of the locals (always executed when the function runs)
    pub body_start: usize,
    /// first line of the final fold / epilogue
    pub fold_start: usize,
    /// line of the final `ret` (functions) or exit `ecall` (main)
    pub last_line: usize,
}

#[derive(Clone, Debug, Default, Serialize, Deserialize)]
pub struct CleanInfo {
    pub funcs: Vec<FuncMeta>,
    pub n_calls: usize,
    pub n_loops: usize,
    pub n_branches: usize,
    pub call_in_loop: bool,
    pub recursion: bool,
    pub frames_with_saved: usize,
    pub early_returns: usize,
    pub ecall_lines: Vec<usize>,
    pub data_labels: Vec<String>,
    #[serde(default)]
    pub passthrough_functions: usize,
}

#[derive(Clone)]
struct Sig {
    name: String,
    arity: usize,
    has_result: bool,
}

struct Fb<'a, 'c> {
    ch: &'a mut Choices<'c>,
    o: &'a CleanOpts,
    out: Vec<Line>,
    base: usize,
    meta: FuncMeta,
    is_main: bool,
    /// registers holding the named locals (always initialised)
    locals: Vec<u8>,
    /// temporaries usable inside one statement
    temps: Vec<u8>,
    /// loop counters in use
    reserved: Vec<u8>,
    callees: Vec<Sig>,
    data: Vec<String>,
    saves: Vec<(u8, i64)>,
    spill_slots: Vec<i64>,
    labels: usize,
    depth: usize,
    in_loop: usize,
    called: std::collections::BTreeSet<String>,
    info: &'a mut CleanInfo,
}

impl Fb<'_, '_> {
    fn emit(&mut self, l: Line) -> usize {
        self.out.push(l);
        self.base + self.out.len() - 1
    }
    fn fresh(&mut self, what: &str) -> String {
        self.labels += 1;
        format!("{}_{}{}", self.meta.name, what, self.labels)
    }
    fn local(&mut self) -> u8 {
        let pool: Vec<u8> = self.locals.iter().copied().filter(|r| !self.reserved.contains(r)).collect();
        *self.ch.pick(&pool)
    }
    fn any_local(&mut self) -> u8 {
        let l = self.locals.clone();
        *self.ch.pick(&l)
    }
    fn small(&mut self) -> i64 {
        match self.ch.weighted(&[4, 2, 1]) {
            0 => self.ch.int_in(1, 9),
            1 => self.ch.int_in(-20, 100),
            _ => *self.ch.pick(&[255i64, 1024, 2047, -2048, 65, 48]),
        }
    }

    /// An operand register holding a defined value; may emit a temp definition first.
    fn operand(&mut self, t: u8) -> u8 {
        match self.ch.weighted(&[5, 3, 2]) {
            0 => self.any_local(),
            1 => {
                let c = self.small();
                self.emit(ins("li", vec![r(t), i(c)]));
                t
            }
            _ => {
                // derived temp: t = local op local/const
                let a = self.any_local();
                if self.ch.chance(1, 2) {
                    let b = self.any_local();
                    let op = self.ch.pick_str(&["add", "sub", "xor", "and", "or", "slt", "sltu", "mul"]);
                    self.emit(ins(op, vec![r(t), r(a), r(b)]));
                } else {
                    let op = self.ch.pick_str(&["addi", "andi", "ori", "xori", "slti", "slli", "srli", "srai"]);
                    let k = if op.starts_with('s') && op != "slti" {
                        self.ch.int_in(0, 4)
                    } else {
                        self.small()
                    };
                    self.emit(ins(op, vec![r(t), r(a), i(k)]));
                }
                t
            }
        }
    }

    /// read-modify-write of a local: `l = l op x`
    fn update(&mut self) {
        let l = self.local();
        let t = self.temps[0];
        match self.ch.weighted(&[4, 4, 1, 1]) {
            0 => {
                let op = self.ch.pick_str(&["addi", "xori", "ori", "andi", "slli", "srli"]);
                let k = if op == "slli" || op == "srli" {
                    self.ch.int_in(0, 3)
                } else if op == "andi" {
                    *self.ch.pick(&[255i64, 1023, -1, 2047])
                } else {
                    self.small()
                };
                self.emit(ins(op, vec![r(l), r(l), i(k)]));
            }
            1 => {
                let x = self.operand(t);
                let op = self.ch.pick_str(&["add", "sub", "xor", "or", "mul", "and", "sll", "rem", "div"]);
                if self.ch.chance(1, 4) {
                    self.emit(ins(op, vec![r(l), r(x), r(l)]));
                } else {
                    self.emit(ins(op, vec![r(l), r(l), r(x)]));
                }
            }
            2 => {
                // two-temp chain
                let t2 = self.temps[1];
                let a = self.operand(t);
                let k = self.small();
                self.emit(ins("addi", vec![r(t2), r(a), i(k)]));
                self.emit(ins("add", vec![r(l), r(l), r(t2)]));
            }
            _ => {
                let x = self.any_local();
                self.emit(ins("mv", vec![r(t), r(x)]));
                self.emit(ins("sub", vec![r(l), r(l), r(t)]));
            }
        }
    }

    fn set_a7(&mut self, n: i64) {
        if self.o.mv_into_a7 && self.ch.chance(1, 6) {
            let t = self.temps[0];
            self.emit(ins("li", vec![r(t), i(n)]));
            self.emit(ins("mv", vec![r(A7), r(t)]));
        } else if self.ch.chance(1, 8) {
            self.emit(ins("addi", vec![r(A7), r(ZERO), i(n)]));
        } else {
            self.emit(ins("li", vec![r(A7), i(n)]));
        }
    }

    /// Any environment call of the table: every argument register is set right before it, every
    /// result register is read right after it.
    fn ecall_any(&mut self) {
        let pool: Vec<i64> = crate::machine::NON_EXIT_ECALLS
            .iter()
            .copied()
            .filter(|n| self.o.ecall_results || crate::machine::ecall_sig(*n as i32).map(|(_, r)| r.is_empty()).unwrap_or(false))
            .collect();
        let n = *self.ch.pick(&pool);
        let (args, rets) = crate::machine::ecall_sig(n as i32).unwrap_or((&[], &[]));
        for a in args {
            if self.ch.chance(1, 2) {
                let c = self.ch.int_in(0, 9);
                self.emit(ins("li", vec![r(*a), i(c)]));
            } else {
                let x = self.any_local();
                self.emit(ins("mv", vec![r(*a), r(x)]));
            }
        }
        self.set_a7(n);
        let at = self.emit(ins("ecall", vec![]));
        self.info.ecall_lines.push(at);
        for res in rets {
            let l = self.local();
            self.emit(ins("add", vec![r(l), r(l), r(*res)]));
        }
    }

    fn ecall_stmt(&mut self) {
        if self.ch.chance(1, 3) {
            return self.ecall_any();
        }
        let with_result = self.o.ecall_results && self.ch.chance(1, 3);
        if with_result {
            match self.ch.below(3) {
                0 => {
                    self.set_a7(5);
                }
                1 => {
                    let c = self.ch.int_in(0, 3);
                    self.emit(ins("li", vec![r(A0), i(c)]));
                    self.set_a7(41);
                }
                _ => {
                    let c = self.ch.int_in(0, 3);
                    let x = self.any_local();
                    self.emit(ins("li", vec![r(A0), i(c)]));
                    self.emit(ins("mv", vec![r(11), r(x)]));
                    self.set_a7(42);
                }
            }
            let at = self.emit(ins("ecall", vec![]));
            self.info.ecall_lines.push(at);
            let l = self.local();
            self.emit(ins("add", vec![r(l), r(l), r(A0)]));
        } else {
            match self.ch.below(3) {
                0 => {
                    let x = self.any_local();
                    self.emit(ins("mv", vec![r(A0), r(x)]));
                    let n = *self.ch.pick(&[1i64, 34, 35, 36]);
                    self.set_a7(n);
                }
                1 => {
                    let c = *self.ch.pick(&[65i64, 10, 32, 48]);
                    self.emit(ins("li", vec![r(A0), i(c)]));
                    self.set_a7(11);
                }
                _ => {
                    if self.data.is_empty() {
                        let c = self.ch.int_in(0, 9);
                        self.emit(ins("li", vec![r(A0), i(c)]));
                        self.set_a7(1);
                    } else {
                        let d = self.data.clone();
                        let lab = self.ch.pick(&d).clone();
                        self.emit(ins("la", vec![r(A0), Opd::L(lab)]));
                        self.set_a7(34);
                    }
                }
            }
            let at = self.emit(ins("ecall", vec![]));
            self.info.ecall_lines.push(at);
        }
    }

    fn call_stmt(&mut self) {
        let c = self.callees.clone();
        let sig = self.ch.pick(&c).clone();
        self.call_to(sig);
    }

    fn call_to(&mut self, sig: Sig) {
        self.called.insert(sig.name.clone());
        if sig.name == self.meta.name {
            self.info.recursion = true;
        }
        // arguments, in an order that never clobbers a pending one (sources are locals / constants)
        let mut order: Vec<usize> = (0..sig.arity).collect();
        if self.ch.chance(1, 2) {
            order.reverse();
        }
        for k in order {
            let dst = A0 + k as u8;
            if self.ch.chance(1, 2) {
                let x = self.any_local();
                self.emit(ins("mv", vec![r(dst), r(x)]));
            } else if self.ch.chance(1, 3) {
                let x = self.any_local();
                let kk = self.ch.int_in(-2, 2);
                self.emit(ins("addi", vec![r(dst), r(x), i(kk)]));
            } else {
                let c = self.small();
                self.emit(ins("li", vec![r(dst), i(c)]));
            }
        }
        let form = self.ch.below(3);
        let at = self.emit(match form {
            0 => ins("jal", vec![Opd::L(sig.name.clone())]),
            1 => ins("call", vec![Opd::L(sig.name.clone())]),
            _ => ins("jal", vec![r(RA), Opd::L(sig.name.clone())]),
        });
        self.meta.call_lines.push(at);
        self.info.n_calls += 1;
        if self.in_loop > 0 {
            self.info.call_in_loop = true;
        }
        if sig.has_result {
            let l = self.local();
            let op = self.ch.pick_str(&["add", "xor", "sub"]);
            self.emit(ins(op, vec![r(l), r(l), r(A0)]));
        }
    }

    fn data_stmt(&mut self) {
        let d = self.data.clone();
        let lab = self.ch.pick(&d).clone();
        let t = self.temps[0];
        let t2 = self.temps[1];
        let off = 4 * self.ch.int_in(0, 2);
        self.emit(ins("la", vec![r(t), Opd::L(lab)]));
        if self.ch.chance(1, 2) {
            self.emit(ins("lw", vec![r(t2), m(off, t)]));
            let l = self.local();
            self.emit(ins("add", vec![r(l), r(l), r(t2)]));
        } else {
            let x = self.any_local();
            self.emit(ins("sw", vec![r(x), m(off, t)]));
        }
    }

    fn spill_stmt(&mut self) {
        // store a local into a spare frame slot and reload it later in the same block
        let slot = *self.ch.pick(&self.spill_slots.clone());
        let l = self.local();
        let a = self.emit(ins("sw", vec![r(l), m(slot, SP)]));
        self.meta.frame_access.push(a);
        let other: Vec<u8> = self.locals.iter().copied().filter(|x| *x != l && !self.reserved.contains(x)).collect();
        if !other.is_empty() {
            let o2 = *self.ch.pick(&other);
            let k = self.small();
            self.emit(ins("addi", vec![r(o2), r(o2), i(k)]));
        }
        let b = self.emit(ins("lw", vec![r(l), m(slot, SP)]));
        self.meta.frame_access.push(b);
    }

    fn cond_branch(&mut self, target: &str) {
        self.info.n_branches += 1;
        let a = self.any_local();
        let t = self.temps[0];
        if self.o.pseudo_branches && self.ch.chance(1, 3) {
            let op = self.ch.pick_str(&["beqz", "bnez", "bltz", "bgez", "bgtz", "blez"]);
            self.emit(ins(op, vec![r(a), Opd::L(target.to_string())]));
        } else {
            let b = if self.ch.chance(1, 3) { ZERO } else { self.operand(t) };
            let pool: &[&'static str] = if self.o.pseudo_branches {
                &["beq", "bne", "blt", "bge", "bltu", "bgeu", "bgt", "ble", "bgtu", "bleu"]
            } else {
                &["beq", "bne", "blt", "bge", "bltu", "bgeu"]
            };
            let op = self.ch.pick_str(pool);
            self.emit(ins(op, vec![r(a), r(b), Opd::L(target.to_string())]));
        }
    }

    fn stmt(&mut self) {
        let leaf = self.meta.leaf;
        let w = [
            10,
            if leaf { 0 } else { 3 },
            if leaf || self.callees.is_empty() { 0 } else { 4 },
            if self.o.data_traffic && !self.data.is_empty() { 2 } else { 0 },
            if self.depth < 3 { 4 } else { 0 },
            if self.depth < 2 && self.locals.len() - self.reserved.len() >= 2 { 2 } else { 0 },
            if self.o.spills && !self.spill_slots.is_empty() { 1 } else { 0 },
            if self.o.early_return && !self.is_main && self.depth >= 1 && self.depth < 3 && self.in_loop == 0 { 1 } else { 0 },
            if self.o.spills && !self.spill_slots.is_empty() { 1 } else { 0 }, // 8 byte / half-word local
            if self.depth < 2 && self.locals.len() - self.reserved.len() >= 2 { 2 } else { 0 }, // 9 while loop (jump to the test)
        ];
        match self.ch.weighted(&w) {
            1 => self.ecall_stmt(),
            2 => self.call_stmt(),
            3 => self.data_stmt(),
            4 => {
                // if / if-else
                let els = self.fresh("else");
                let join = self.fresh("join");
                self.cond_branch(&els);
                self.depth += 1;
                for _ in 0..1 + self.ch.below(3) {
                    self.stmt();
                }
                let with_else = self.ch.chance(1, 2);
                if with_else {
                    self.emit(ins("j", vec![Opd::L(join.clone())]));
                }
                self.emit(Line::Label(els));
                if with_else {
                    for _ in 0..1 + self.ch.below(2) {
                        self.stmt();
                    }
                    self.emit(Line::Label(join));
                }
                self.depth -= 1;
            }
            5 => {
                // counted loop on a dedicated local
                let cnt = self.local();
                self.reserved.push(cnt);
                self.info.n_loops += 1;
                let top = self.fresh("loop");
                // the counter's previous value is folded into another local first (so it is used)
                let other = self.local();
                self.emit(ins("add", vec![r(other), r(other), r(cnt)]));
                let n = self.ch.int_in(1, 3);
                self.emit(ins("li", vec![r(cnt), i(n)]));
                self.emit(Line::Label(top.clone()));
                self.depth += 1;
                self.in_loop += 1;
                for _ in 0..1 + self.ch.below(3) {
                    self.stmt();
                }
                self.in_loop -= 1;
                self.depth -= 1;
                self.emit(ins("addi", vec![r(cnt), r(cnt), i(-1)]));
                if self.ch.chance(1, 2) {
                    self.emit(ins("bnez", vec![r(cnt), Opd::L(top)]));
                } else {
                    self.emit(ins("bgt", vec![r(cnt), r(ZERO), Opd::L(top)]));
                }
                self.reserved.pop();
            }
            6 => self.spill_stmt(),
            7 => {
                self.info.early_returns += 1;
                let skip = self.fresh("cont");
                self.cond_branch(&skip);
                self.finish(true);
                self.emit(Line::Label(skip));
            }
            8 => {
                // a byte or half-word local inside a spare frame slot
                let slot = *self.ch.pick(&self.spill_slots.clone());
                let x = self.any_local();
                let t = self.temps[0];
                let l = self.local();
                if self.ch.chance(1, 2) {
                    let b = self.ch.int_in(0, 3);
                    let a = self.emit(ins("sb", vec![r(x), m(slot + b, SP)]));
                    self.meta.frame_access.push(a);
                    let ld = self.ch.pick_str(&["lbu", "lb"]);
                    let c = self.emit(ins(ld, vec![r(t), m(slot + b, SP)]));
                    self.meta.frame_access.push(c);
                } else {
                    let b = 2 * self.ch.int_in(0, 1);
                    let a = self.emit(ins("sh", vec![r(x), m(slot + b, SP)]));
                    self.meta.frame_access.push(a);
                    let ld = self.ch.pick_str(&["lhu", "lh"]);
                    let c = self.emit(ins(ld, vec![r(t), m(slot + b, SP)]));
                    self.meta.frame_access.push(c);
                }
                self.emit(ins("add", vec![r(l), r(l), r(t)]));
            }
            9 => {
                // while loop in the usual compiled shape: jump to the test at the bottom
                let cnt = self.local();
                self.reserved.push(cnt);
                self.info.n_loops += 1;
                let body = self.fresh("body");
                let test = self.fresh("test");
                let other = self.local();
                self.emit(ins("add", vec![r(other), r(other), r(cnt)]));
                if self.ch.chance(1, 3) {
                    // a bound that the analysis cannot know (0..3, taken from another local)
                    self.emit(ins("andi", vec![r(cnt), r(other), i(3)]));
                } else {
                    let n = self.ch.int_in(0, 3);
                    self.emit(ins("li", vec![r(cnt), i(n)]));
                }
                self.emit(ins("j", vec![Opd::L(test.clone())]));
                self.emit(Line::Label(body.clone()));
                self.depth += 1;
                self.in_loop += 1;
                for _ in 0..1 + self.ch.below(3) {
                    self.stmt();
                }
                self.in_loop -= 1;
                self.depth -= 1;
                self.emit(ins("addi", vec![r(cnt), r(cnt), i(-1)]));
                self.emit(Line::Label(test));
                if self.ch.chance(1, 2) {
                    self.emit(ins("bgtz", vec![r(cnt), Opd::L(body)]));
                } else {
                    self.emit(ins("blt", vec![r(ZERO), r(cnt), Opd::L(body)]));
                }
                self.reserved.pop();
            }
            _ => self.update(),
        }
    }

    fn prologue(&mut self) {
        let f = self.meta.frame;
        if f == 0 {
            return;
        }
        if self.o.two_step_frame && f >= 8 && self.ch.chance(1, 5) {
            let a = 4 * self.ch.int_in(1, f / 4 - 1);
            self.emit(ins("addi", vec![r(SP), r(SP), i(-a)]));
            self.emit(ins("addi", vec![r(SP), r(SP), i(-(f - a))]));
        } else {
            self.emit(ins("addi", vec![r(SP), r(SP), i(-f)]));
        }
        for (reg, off) in self.saves.clone() {
            let at = self.emit(ins("sw", vec![r(reg), m(off, SP)]));
            self.meta.frame_access.push(at);
            if reg == RA {
                self.meta.ra_save = Some(at);
            }
        }
    }

    /// fold all locals into the result, restore, leave
    fn finish(&mut self, early: bool) {
        let acc = self.locals[0];
        if !early || self.ch.chance(1, 2) {
            for l in self.locals.clone().into_iter().skip(1) {
                if early && self.reserved.contains(&l) {
                    continue;
                }
                self.emit(ins("add", vec![r(acc), r(acc), r(l)]));
            }
        }
        if self.is_main {
            // use the accumulated value, then exit
            if self.ch.chance(1, 2) {
                self.emit(ins("mv", vec![r(A0), r(acc)]));
                self.set_a7(1);
                let at = self.emit(ins("ecall", vec![]));
                self.info.ecall_lines.push(at);
                self.set_a7(10);
            } else {
                self.emit(ins("mv", vec![r(A0), r(acc)]));
                self.set_a7(93);
            }
            let at = self.emit(ins("ecall", vec![]));
            self.info.ecall_lines.push(at);
            return;
        }
        if self.meta.has_result {
            self.emit(ins("mv", vec![r(A0), r(acc)]));
        } else if !self.meta.leaf {
            // a function without result prints what it computed
            self.emit(ins("mv", vec![r(A0), r(acc)]));
            self.set_a7(1);
            let at = self.emit(ins("ecall", vec![]));
            self.info.ecall_lines.push(at);
        } else if !self.data.is_empty() {
            let d = self.data.clone();
            let lab = self.ch.pick(&d).clone();
            let t = self.temps[0];
            self.emit(ins("la", vec![r(t), Opd::L(lab)]));
            self.emit(ins("sw", vec![r(acc), m(0, t)]));
        }
        for (reg, off) in self.saves.clone() {
            let at = self.emit(ins("lw", vec![r(reg), m(off, SP)]));
            self.meta.frame_access.push(at);
            if reg == RA {
                self.meta.ra_restores.push(at);
            }
        }
        if self.meta.frame != 0 {
            let at = self.emit(ins("addi", vec![r(SP), r(SP), i(self.meta.frame)]));
            self.meta.epilogue_sp.push(at);
        }
        self.emit(ins("ret", vec![]));
    }
}

pub fn program(ch: &mut Choices, o: &CleanOpts) -> (Vec<Line>, CleanInfo) {
    let mut info = CleanInfo::default();
    let n_funcs = ch.below(o.max_funcs + 1);
    // signatures first (so that callers know arity / result)
    let mut sigs: Vec<Sig> = vec![Sig {
        name: "main".into(),
        arity: 0,
        has_result: false,
    }];
    let mut leafs = vec![false];
    for k in 1..=n_funcs {
        let leaf = k == n_funcs || ch.chance(1, 3);
        let arity = ch.below(4);
        // a leaf without result needs a data label to put its value; decided below
        sigs.push(Sig {
            name: format!("fn{k}"),
            arity,
            has_result: ch.chance(2, 3),
        });
        leafs.push(leaf);
    }
    let mut data_labels = vec![];
    let mut data_lines = vec![];
    let any_leaf_void = (1..=n_funcs).any(|k| leafs[k] && !sigs[k].has_result);
    if any_leaf_void || (o.data_traffic && ch.chance(1, 2)) {
        data_lines.push(Line::Dir(".data".into(), vec![]));
        for k in 0..1 + ch.below(2) {
            let n = format!("arr{k}");
            data_lines.push(Line::Label(n.clone()));
            data_labels.push(n);
            data_lines.push(Line::Dir(".word".into(), (0..3).map(|_| i(ch.int_in(0, 50))).collect()));
        }
        if ch.chance(1, 3) {
            data_lines.push(Line::Label("msg".into()));
            data_lines.push(Line::Dir(".asciz".into(), vec![Opd::S("hello".into())]));
        }
    }
    info.data_labels = data_labels.clone();
    let mut lines: Vec<Line> = vec![];
    let data_first = !data_lines.is_empty() && ch.chance(1, 2);
    if data_first {
        lines.extend(data_lines.clone());
        lines.push(Line::Dir(".text".into(), vec![]));
    } else if ch.chance(1, 4) {
        lines.push(Line::Dir(".text".into(), vec![]));
    }
    for k in 0..=n_funcs {
        let is_main = k == 0;
        let sig = sigs[k].clone();
        let leaf = leafs[k] && !is_main;
        // callees: later functions (always terminating); sometimes itself / earlier ones
        let mut callees: Vec<Sig> = if leaf { vec![] } else { sigs[k + 1..].to_vec() };
        if !leaf && !is_main && o.recursion && ch.chance(1, 6) {
            callees.push(sig.clone());
        }
        // a leaf that hands one of its arguments back unchanged on one path (max, abs, clamp ...)
        if leaf && sig.has_result && sig.arity >= 1 && o.passthrough && ch.chance(1, 5) {
            let start = lines.len();
            lines.push(Line::Label(sig.name.clone()));
            let body_start = lines.len();
            for extra in (2..sig.arity).rev() {
                // further arguments are folded into the second one (every argument is read)
                lines.push(ins("add", vec![r(A0 + 1), r(A0 + 1), r(A0 + extra as u8)]));
            }
            let keep = format!("{}_keep", sig.name);
            if sig.arity >= 2 {
                let b = ch.pick_str(&["bge", "bgeu", "blt", "beq"]);
                lines.push(ins(b, vec![r(A0), r(A0 + 1), Opd::L(keep.clone())]));
                lines.push(ins("mv", vec![r(A0), r(A0 + 1)]));
            } else {
                let b = ch.pick_str(&["bgez", "beqz", "bgtz"]);
                lines.push(ins(b, vec![r(A0), Opd::L(keep.clone())]));
                match ch.below(3) {
                    0 => lines.push(ins("neg", vec![r(A0), r(A0)])),
                    1 => lines.push(ins("li", vec![r(A0), i(ch.int_in(0, 9))])),
                    _ => lines.push(ins("addi", vec![r(A0), r(A0), i(ch.int_in(1, 9))])),
                }
            }
            let fold_start = lines.len();
            lines.push(Line::Label(keep));
            lines.push(ins("ret", vec![]));
            info.passthrough_functions += 1;
            info.funcs.push(FuncMeta {
                name: sig.name.clone(),
                arity: sig.arity,
                has_result: true,
                leaf: true,
                locals: vec![A0],
                body_start,
                fold_start,
                last_line: lines.len() - 1,
                span: (start, lines.len()),
                ..Default::default()
            });
            continue;
        }
        let n_locals = 1 + ch.below(4);
        let (locals, temps, saved): (Vec<u8>, Vec<u8>, Vec<u8>) = if leaf {
            // locals in temporaries and unused argument registers
            let mut pool: Vec<u8> = TEMPS[2..].to_vec();
            pool.extend((A0 + sig.arity.max(1) as u8..=16).collect::<Vec<u8>>());
            let mut l = vec![];
            for _ in 0..n_locals {
                let p: Vec<u8> = pool.iter().copied().filter(|x| !l.contains(x)).collect();
                l.push(*ch.pick(&p));
            }
            (l, vec![5, 6], vec![])
        } else {
            let mut l = vec![];
            for _ in 0..n_locals {
                let p: Vec<u8> = SAVED.iter().copied().filter(|x| !l.contains(x)).collect();
                l.push(*ch.pick(&p));
            }
            let t: Vec<u8> = {
                let a = *ch.pick(&TEMPS);
                let p: Vec<u8> = TEMPS.iter().copied().filter(|x| *x != a).collect();
                vec![a, *ch.pick(&p)]
            };
            let s = if is_main { vec![] } else { l.clone() };
            (l, t, s)
        };
        // frame
        let needs_ra = !leaf && !is_main;
        let n_spill = if o.spills && (!is_main || o.main_frame) { ch.below(3) } else { 0 };
        let pad = ch.below(2);
        let n_slots = saved.len() + needs_ra as usize + n_spill + pad;
        let mut slots: Vec<i64> = (0..n_slots as i64).map(|j| 4 * j).collect();
        for j in (1..slots.len()).rev() {
            let q = ch.below(j + 1);
            slots.swap(j, q);
        }
        let frame = if is_main && (!o.main_frame || n_spill == 0) { 0 } else { 4 * slots.len() as i64 };
        let mut it = slots.into_iter();
        let mut saves = vec![];
        if frame != 0 {
            if needs_ra {
                saves.push((RA, it.next().unwrap()));
            }
            for s in &saved {
                saves.push((*s, it.next().unwrap()));
            }
        }
        let spill_slots: Vec<i64> = if frame != 0 { it.take(n_spill).collect() } else { vec![] };
        if !saved.is_empty() {
            info.frames_with_saved += 1;
        }
        let start = lines.len();
        lines.push(Line::Label(sig.name.clone()));
        let meta = FuncMeta {
            name: sig.name.clone(),
            arity: sig.arity,
            has_result: sig.has_result,
            leaf,
            saved: saved.clone(),
            frame,
            locals: locals.clone(),
            ..Default::default()
        };
        let n_stmts = 1 + ch.below(o.max_stmts);
        let mut fb = Fb {
            ch,
            o,
            out: vec![],
            base: lines.len(),
            meta,
            is_main,
            locals: locals.clone(),
            temps,
            reserved: vec![],
            callees,
            data: data_labels.clone(),
            saves,
            spill_slots,
            labels: 0,
            depth: 0,
            in_loop: 0,
            called: Default::default(),
            info: &mut info,
        };
        fb.prologue();
        // initialise every local: from the arguments first (each argument is read), then constants
        let mut arg = 0;
        for (j, l) in locals.iter().enumerate() {
            if arg < sig.arity {
                if fb.ch.chance(1, 3) {
                    let k = fb.small();
                    fb.emit(ins("addi", vec![r(*l), r(A0 + arg as u8), i(k)]));
                } else {
                    fb.emit(ins("mv", vec![r(*l), r(A0 + arg as u8)]));
                }
                arg += 1;
            } else {
                let c = fb.small();
                fb.emit(ins("li", vec![r(*l), i(c)]));
            }
            let _ = j;
        }
        // a frame that holds nothing but spill slots must be used, or allocating it is a dead assignment
        if is_main && !fb.spill_slots.is_empty() {
            fb.spill_stmt();
        }
        // remaining arguments are folded into the first local
        while arg < sig.arity {
            let acc = locals[0];
            fb.emit(ins("add", vec![r(acc), r(acc), r(A0 + arg as u8)]));
            arg += 1;
        }
        fb.meta.body_start = fb.base + fb.out.len();
        for _ in 0..n_stmts {
            fb.stmt();
        }
        if is_main {
            // every function must be a call target, otherwise it is not a function at all
            for s in sigs[1..].to_vec() {
                if !fb.called.contains(&s.name) {
                    fb.call_to(s);
                }
            }
        }
        fb.meta.fold_start = fb.base + fb.out.len();
        fb.finish(false);
        fb.meta.last_line = fb.base + fb.out.len() - 1;
        let mut meta = fb.meta.clone();
        let out = std::mem::take(&mut fb.out);
        lines.extend(out);
        meta.span = (start, lines.len());
        info.funcs.push(meta);
    }
    if !data_first {
        lines.extend(data_lines);
    }
    (lines, info)
}
