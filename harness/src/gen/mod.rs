//! Generators. Every generator is a plain function of a `Choices`.

pub mod abi;
pub mod clean;
pub mod syn;
pub mod text;
pub mod wild;

use crate::choice::Choices;
use crate::model::*;
use serde::{Deserialize, Serialize};

/// Cut a line list into a base file and included files at line boundaries.
/// Returns (file name, lines) with the base file first. `depth` bounds nesting.
pub fn split_include(
    lines: &[Line],
    ch: &mut Choices,
    max_files: usize,
) -> Vec<(String, Vec<Line>)> {
    let mut files: Vec<(String, Vec<Line>)> = vec![("main.s".to_string(), lines.to_vec())];
    let n_cuts = ch.below(max_files);
    for k in 0..n_cuts {
        // pick a host file and a line range inside it
        let host = ch.below(files.len());
        let len = files[host].1.len();
        if len < 2 {
            continue;
        }
        let a = ch.below(len);
        let b = a + 1 + ch.below(len - a);
        // never separate an inline-able label from nothing: any range is fine textually
        let name = format!("inc{k}.s");
        let body: Vec<Line> = files[host].1[a..b].to_vec();
        if body.iter().any(|l| matches!(l, Line::Dir(d, _) if d == ".include")) && ch.chance(1, 2) {
            // keep some nesting, but not always
        }
        let mut new_host: Vec<Line> = files[host].1[..a].to_vec();
        new_host.push(Line::Dir(".include".into(), vec![Opd::S(name.clone())]));
        new_host.extend_from_slice(&files[host].1[b..]);
        files[host].1 = new_host;
        files.push((name, body));
    }
    files
}

/// Move the files of an include tree into directories: the base may live in `prog/`, included
/// files in `lib/`, `shared/x/`, an absolute directory (in-memory readers only) or next to it.
/// Include directives are rewritten as paths relative to the including file.
pub fn place_in_dirs(files: &mut Vec<(String, Vec<Line>)>, ch: &mut Choices, allow_absolute: bool) {
    use crate::paths::{relpath, resolve};
    let mut rename: Vec<(String, String)> = vec![];
    for (k, (name, _)) in files.iter().enumerate() {
        let dir = if k == 0 {
            *ch.pick(&["", "prog/", "src/"])
        } else if allow_absolute {
            *ch.pick(&["", "lib/", "shared/x/", "lib/", "/abs/inc/"])
        } else {
            *ch.pick(&["", "lib/", "shared/x/", "lib/", "prog/deep/"])
        };
        rename.push((name.clone(), crate::paths::normalise(&format!("{dir}{name}"))));
    }
    let old_names: Vec<String> = files.iter().map(|f| f.0.clone()).collect();
    for (k, (name, lines)) in files.iter_mut().enumerate() {
        let old_parent = old_names[k].clone();
        *name = rename[k].1.clone();
        for l in lines.iter_mut() {
            if let Line::Dir(d, ops) = l {
                if d == ".include" {
                    if let Some(Opd::S(target)) = ops.first_mut() {
                        let old_target = resolve(&old_parent, target);
                        if let Some((_, new)) = rename.iter().find(|(old, _)| *old == old_target) {
                            *target = relpath(&rename[k].1, new);
                        }
                    }
                }
            }
        }
    }
}

/// Rename one file of an include tree and rewrite the directives that name it, and its own.
pub fn rename_file(files: &mut Vec<(String, Vec<Line>)>, old: &str, new: &str) {
    use crate::paths::{relpath, resolve};
    let names: Vec<String> = files.iter().map(|f| f.0.clone()).collect();
    let new_name = |n: &str| if n == old { new.to_string() } else { n.to_string() };
    for (k, (name, lines)) in files.iter_mut().enumerate() {
        let old_parent = names[k].clone();
        *name = new_name(&old_parent);
        for l in lines.iter_mut() {
            if let Line::Dir(d, ops) = l {
                if d == ".include" {
                    if let Some(Opd::S(target)) = ops.first_mut() {
                        let t = resolve(&old_parent, target);
                        if names.contains(&t) {
                            *target = relpath(&new_name(&old_parent), &new_name(&t));
                        }
                    }
                }
            }
        }
    }
}

/// Give two included files in different directories the same base name - preferably such that the
/// two directives that name them then read the same (the same path text, two different files).
pub fn clash_basenames(files: &mut Vec<(String, Vec<Line>)>, ch: &mut Choices) {
    use crate::paths::{dir_of, relpath, resolve};
    let n = files.len();
    // the file that includes each file (first one found)
    let includer = |k: usize| -> Option<usize> {
        files.iter().position(|(host, ls)| {
            ls.iter().any(|l| matches!(l, Line::Dir(d, ops) if d == ".include" && matches!(ops.first(), Some(Opd::S(p)) if resolve(host, p) == files[k].0)))
        })
    };
    let new_name = |a: usize, b: usize| -> String {
        let base = files[a].0.rsplit('/').next().unwrap_or("x.s").to_string();
        let d = dir_of(&files[b].0).to_string();
        if d.is_empty() {
            base
        } else {
            format!("{d}/{base}")
        }
    };
    let mut same_text = vec![];
    let mut any = vec![];
    for a in 1..n {
        for b in 1..n {
            if a == b || dir_of(&files[a].0) == dir_of(&files[b].0) || files.iter().any(|f| f.0 == new_name(a, b)) {
                continue;
            }
            any.push((a, b));
            if let (Some(ia), Some(ib)) = (includer(a), includer(b)) {
                if ib != b && relpath(&files[ia].0, &files[a].0) == relpath(&files[ib].0, &new_name(a, b)) {
                    same_text.push((a, b));
                }
            }
        }
    }
    let pool = if !same_text.is_empty() { same_text } else { any };
    if pool.is_empty() {
        return;
    }
    let (a, b) = *ch.pick(&pool);
    let new = new_name(a, b);
    let old = files[b].0.clone();
    rename_file(files, &old, &new);
}

#[derive(Clone, Debug, PartialEq, Eq, Serialize, Deserialize)]
pub struct Defect {
    pub kind: String,
    pub text: String,
    /// does the documentation define this line as a parse error (true), or is
    /// it merely unsupported/ignored with a warning
    pub expect_error: bool,
}

pub const DEFECT_KINDS: [&str; 15] = [
    "directive-without-values",
    "bad-register",
    "missing-operand",
    "extra-operand",
    "unknown-mnemonic",
    "unknown-directive",
    "unsupported-directive",
    "stray-punct",
    "stray-char",
    "unterminated-string",
    "unterminated-char",
    "missing-operand-first",
    "bad-immediate",
    "bad-memory-operand",
    "lone-dot",
];

/// One malformed / unsupported statement line (no newline inside).
pub fn defect_line(ch: &mut Choices) -> Defect {
    let kind = *ch.pick(&DEFECT_KINDS);
    let mut expect_error = true;
    let text = match kind {
        // unusual but accepted: a data directive with an empty value list (e.g. a placeholder)
        "directive-without-values" => {
            expect_error = false;
            ch.pick(&[".word", ".byte", ".half", "count: .word", ".word # todo", ".dword"]).to_string()
        }
        "bad-register" => ch
            .pick(&[
                "add a0, a1, q9",
                "addi t7, t0, 1",
                "lw a0, 0(x32)",
                "mv A0, a1",
                "sub s12, s1, s2",
            ])
            .to_string(),
        "missing-operand" => ch
            .pick(&[
                "add a0, a1",
                "addi a0, a0",
                "beq a0, a1",
                "li a0",
                "lw a0",
                "sw a0",
                "sw t0, counter",
                "sb a0, buf",
                "la a0",
                "mv a0",
                "jal",
                "csrrw a0, ustatus",
                ".align",
                ".space",
                ".include",
            ])
            .to_string(),
        "missing-operand-first" => ch
            .pick(&["add", "addi", "beq", "li", "lw", "j", "call", "bnez", "jr"])
            .to_string(),
        "extra-operand" => ch
            .pick(&[
                "add a0, a1, a2, a3",
                "ret a0",
                "ecall 5",
                "li a0, 1, 2",
                "mv a0, a1, a2",
            ])
            .to_string(),
        "unknown-mnemonic" => ch
            .pick(&["addd a0, a1, a2", "jall foo", "move a0, a1", "fadd.s f0, f1, f2", "push a0"])
            .to_string(),
        "unknown-directive" => ch
            .pick(&[".foo", ".wordd 1", ".bss", ".rodata", ".p2align 2"])
            .to_string(),
        "unsupported-directive" => ch
            .pick(&[".globl main", ".eqv N, 4", ".section .text", ".extern x 4", ".global main", "fence", ".endmacro"])
            .to_string(),
        "stray-punct" => ch
            .pick(&[")", "(", ":", "+", "@", ";", "add a0, a1, a2 ;", "li a0, 4 + 4", "a0 = 5", "lw a0, 4(sp", "lw a0, 4 sp)"])
            .to_string(),
        "stray-char" => ch
            .pick(&[
                "add a0, a1, \u{e9}",
                "li a0, 1\u{a0}",
                "\u{2028}",
                "li a0, 5 \u{1f600}",
                "caf\u{e9}: nop",
                "add a0, a0, a0 \u{0}",
                "\\",
                "li a0, 1 ! c",
            ])
            .to_string(),
        "unterminated-string" => ch
            .pick(&[".asciz \"abc", ".ascii \"a\\", ".string \"", ".asciz \"bad \\q esc\""])
            .to_string(),
        "unterminated-char" => ch
            .pick(&["li a0, 'a", "li a0, '", "li a0, 'ab'", "li a0, '\\q'"])
            .to_string(),
        "bad-immediate" => ch
            .pick(&["li a0, 0x", "addi a0, a0, 12a", "li a0, 99999999999", "li a0, --1", "lui a0, 0b2"])
            .to_string(),
        "bad-memory-operand" => ch
            .pick(&["lw a0, 4(5)", "sw a0, (4)sp", "lw a0, a1(sp)", "lw a0, 4(sp)(sp)"])
            .to_string(),
        _ => ch.pick(&[".", ". .", "add a0, a0, .", "..."]).to_string(),
    };
    Defect {
        kind: kind.to_string(),
        text,
        expect_error,
    }
}

/// Insert 1..=max defective lines at random positions. Returns the indices
/// (in the new list) of the inserted lines and their descriptions.
pub fn inject_defects(
    lines: &mut Vec<Line>,
    ch: &mut Choices,
    max: usize,
) -> Vec<(usize, Defect)> {
    let n = 1 + ch.below(max);
    let mut inserted: Vec<(usize, Defect)> = vec![];
    for _ in 0..n {
        let d = defect_line(ch);
        let at = ch.below(lines.len() + 1);
        lines.insert(at, Line::Raw(format!("    {}", d.text)));
        for x in inserted.iter_mut() {
            if x.0 >= at {
                x.0 += 1;
            }
        }
        inserted.push((at, d));
    }
    inserted.sort_by_key(|x| x.0);
    inserted
}
