//! Syntactic program generator: every statement form the parser accepts,
//! arranged as `main` + functions so that most programs pass CFG
//! construction, with no attention paid to the calling convention (plenty of
//! lint diagnostics result, which is what the location/format checks want).

use crate::choice::Choices;
use crate::model::*;

pub const ARITH: [&str; 18] = [
    "add", "sub", "and", "or", "xor", "sll", "srl", "sra", "slt", "sltu", "mul", "mulh", "mulhsu",
    "mulhu", "div", "divu", "rem", "remu",
];
pub const IARITH: [&str; 6] = ["addi", "andi", "ori", "xori", "slti", "sltiu"];
pub const SHIFTI: [&str; 3] = ["slli", "srli", "srai"];
pub const LOADS: [&str; 5] = ["lw", "lh", "lb", "lhu", "lbu"];
pub const STORES: [&str; 3] = ["sw", "sh", "sb"];
pub const BRANCH3: [&str; 10] = [
    "beq", "bne", "blt", "bge", "bltu", "bgeu", "bgt", "ble", "bgtu", "bleu",
];
pub const BRANCH2: [&str; 6] = ["beqz", "bnez", "bltz", "bgez", "bgtz", "blez"];
pub const UNARY: [&str; 7] = ["mv", "neg", "not", "seqz", "snez", "sltz", "sgtz"];
pub const CSRS: [&str; 8] = [
    "ustatus", "uie", "utvec", "uscratch", "uepc", "ucause", "cycle", "time",
];

pub fn any_reg(ch: &mut Choices) -> u8 {
    // a0 is the simplest register
    const ORDER: [u8; 32] = [
        10, 11, 5, 6, 8, 9, 12, 13, 7, 28, 18, 19, 14, 15, 16, 17, 29, 30, 31, 20, 21, 22, 23, 24,
        25, 26, 27, 1, 2, 0, 3, 4,
    ];
    *ch.pick(&ORDER)
}

pub fn gp_reg(ch: &mut Choices) -> u8 {
    // registers an ordinary instruction may write (not sp/ra/zero/gp/tp)
    const ORDER: [u8; 27] = [
        10, 11, 5, 6, 8, 9, 12, 13, 7, 28, 18, 19, 14, 15, 16, 17, 29, 30, 31, 20, 21, 22, 23, 24,
        25, 26, 27,
    ];
    *ch.pick(&ORDER)
}

pub fn small_imm(ch: &mut Choices) -> i64 {
    match ch.weighted(&[4, 2, 1]) {
        0 => ch.int_in(0, 16),
        1 => ch.int_in(-2048, 2047),
        _ => *ch.pick(&[0, 1, -1, 2047, -2048, 255, 65, 10]),
    }
}

/// A straight-line (non control-flow) instruction.
pub fn plain_ins(ch: &mut Choices, data_labels: &[String]) -> Vec<Line> {
    let k = ch.weighted(&[6, 6, 2, 3, 3, 3, 2, 2, 1, 2, 1, 1]);
    let one = |l: Line| vec![l];
    match k {
        0 => one(ins(
            ch.pick_str(&ARITH),
            vec![r(gp_reg(ch)), r(any_reg(ch)), r(any_reg(ch))],
        )),
        1 => one(ins(
            ch.pick_str(&IARITH),
            vec![r(gp_reg(ch)), r(any_reg(ch)), i(small_imm(ch))],
        )),
        2 => one(ins(
            ch.pick_str(&SHIFTI),
            vec![r(gp_reg(ch)), r(any_reg(ch)), i(ch.int_in(0, 31))],
        )),
        3 => one(ins("li", vec![r(gp_reg(ch)), i(li_imm(ch))])),
        4 => {
            // load
            let mn = ch.pick_str(&LOADS);
            let rd = gp_reg(ch);
            match ch.weighted(&[5, 2, if data_labels.is_empty() { 0 } else { 2 }]) {
                0 => one(ins(mn, vec![r(rd), m(ch.int_in(-8, 8) * 4, SP)])),
                1 => one(ins(mn, vec![r(rd), m(small_imm(ch), any_reg(ch))])),
                _ => one(ins(mn, vec![r(rd), Opd::L(ch.pick(data_labels).clone())])),
            }
        }
        5 => {
            let mn = ch.pick_str(&STORES);
            let rs = any_reg(ch);
            match ch.weighted(&[5, 2, if data_labels.is_empty() { 0 } else { 1 }]) {
                0 => one(ins(mn, vec![r(rs), m(ch.int_in(-8, 8) * 4, SP)])),
                1 => one(ins(mn, vec![r(rs), m(small_imm(ch), any_reg(ch))])),
                _ => one(ins(
                    mn,
                    vec![
                        r(rs),
                        Opd::L(ch.pick(data_labels).clone()),
                        r(*ch.pick(&TEMPS)),
                    ],
                )),
            }
        }
        6 => one(ins(ch.pick_str(&UNARY), vec![r(gp_reg(ch)), r(any_reg(ch))])),
        7 => {
            if data_labels.is_empty() {
                one(ins("nop", vec![]))
            } else {
                one(ins(
                    "la",
                    vec![r(gp_reg(ch)), Opd::L(ch.pick(data_labels).clone())],
                ))
            }
        }
        8 => one(ins("lui", vec![r(gp_reg(ch)), i(ch.int_in(0, 0xfffff))])),
        9 => {
            // print-style ecall with a known number
            let n = if ch.chance(1, 2) { *ch.pick(&[1i64, 11, 4, 5, 34, 41, 30]) } else { *ch.pick(&crate::machine::NON_EXIT_ECALLS) };
            vec![ins("li", vec![r(A7), i(n)]), ins("ecall", vec![])]
        }
        10 => match ch.below(5) {
            0 => one(ins(
                "csrrw",
                vec![r(gp_reg(ch)), Opd::C(ch.pick_str(&CSRS).to_string()), r(any_reg(ch))],
            )),
            1 => one(ins(
                "csrrsi",
                vec![r(gp_reg(ch)), Opd::C(ch.pick_str(&CSRS).to_string()), i(ch.int_in(0, 31))],
            )),
            2 => one(ins(
                "csrr",
                vec![r(gp_reg(ch)), Opd::C(ch.pick_str(&CSRS).to_string())],
            )),
            3 => one(ins(
                "csrw",
                vec![r(any_reg(ch)), Opd::C(ch.pick_str(&CSRS).to_string())],
            )),
            _ => one(ins(
                "csrwi",
                vec![Opd::C(ch.pick_str(&CSRS).to_string()), i(ch.int_in(0, 31))],
            )),
        },
        _ => one(ins("nop", vec![])),
    }
}

pub fn li_imm(ch: &mut Choices) -> i64 {
    match ch.weighted(&[5, 2, 2]) {
        0 => ch.int_in(0, 100),
        1 => small_imm(ch),
        _ => ch.word() as i32 as i64,
    }
}

#[derive(Clone, Debug, Default)]
pub struct SynOpts {
    pub max_funcs: usize,
    pub max_body: usize,
    pub data: bool,
    /// include odd-but-accepted statement forms (jalr variants, x0-based loads, RARS stores)
    pub odd_forms: bool,
}

#[derive(Clone, Debug, Default)]
pub struct SynInfo {
    pub n_funcs: usize,
    pub n_branches: usize,
    pub n_calls: usize,
    pub has_data: bool,
}

fn body(
    ch: &mut Choices,
    prefix: &str,
    max: usize,
    funcs: &[String],
    data_labels: &[String],
    o: &SynOpts,
    info: &mut SynInfo,
) -> Vec<Line> {
    let n = ch.below(max + 1);
    // pre-decide local labels so that branches can go both ways
    let n_labels = ch.below(3.min(n + 1));
    let mut label_at: Vec<usize> = (0..n_labels).map(|_| ch.below(n + 1)).collect();
    label_at.sort_unstable();
    let mut out = vec![];
    let mut next_label = 0;
    for k in 0..=n {
        while next_label < n_labels && label_at[next_label] == k {
            out.push(Line::Label(format!("{prefix}_L{next_label}")));
            next_label += 1;
        }
        if k == n {
            break;
        }
        match ch.weighted(&[10, if n_labels > 0 { 3 } else { 0 }, if funcs.is_empty() { 0 } else { 2 }, if o.odd_forms { 1 } else { 0 }]) {
            1 => {
                let target = format!("{prefix}_L{}", ch.below(n_labels));
                info.n_branches += 1;
                if ch.chance(1, 2) {
                    out.push(ins(
                        ch.pick_str(&BRANCH3),
                        vec![r(any_reg(ch)), r(any_reg(ch)), Opd::L(target)],
                    ));
                } else {
                    out.push(ins(ch.pick_str(&BRANCH2), vec![r(any_reg(ch)), Opd::L(target)]));
                }
            }
            2 => {
                info.n_calls += 1;
                let f = ch.pick(funcs).clone();
                match ch.below(3) {
                    0 => out.push(ins("jal", vec![Opd::L(f)])),
                    1 => out.push(ins("call", vec![Opd::L(f)])),
                    _ => out.push(ins("jal", vec![r(RA), Opd::L(f)])),
                }
            }
            3 => match ch.below(4) {
                0 => out.push(ins("lw", vec![r(gp_reg(ch)), i(ch.int_in(0, 64))])),
                1 => out.push(ins(
                    "sw",
                    vec![r(any_reg(ch)), i(ch.int_in(0, 64)), r(*ch.pick(&TEMPS))],
                )),
                2 => out.push(ins("ebreak", vec![])),
                _ => out.push(ins(
                    "slliw",
                    vec![r(gp_reg(ch)), r(any_reg(ch)), i(ch.int_in(0, 31))],
                )),
            },
            _ => out.extend(plain_ins(ch, data_labels)),
        }
    }
    out
}

/// main + functions (+ data section). Every label that is referenced is defined.
pub fn program(ch: &mut Choices, o: &SynOpts) -> (Vec<Line>, SynInfo) {
    let mut info = SynInfo::default();
    let n_funcs = ch.below(o.max_funcs + 1);
    info.n_funcs = n_funcs;
    let funcs: Vec<String> = (0..n_funcs).map(|k| format!("fn{k}")).collect();
    let mut data_labels = vec![];
    let mut lines = vec![];
    let has_data = o.data && ch.chance(1, 2);
    info.has_data = has_data;
    let mut data = vec![];
    if has_data {
        data.push(Line::Dir(".data".into(), vec![]));
        let n = 1 + ch.below(3);
        for k in 0..n {
            let name = format!("dat{k}");
            data.push(Line::Label(name.clone()));
            data_labels.push(name);
            match ch.below(5) {
                0 => {
                    let cnt = 1 + ch.below(4);
                    data.push(Line::Dir(
                        ".word".into(),
                        (0..cnt).map(|_| i(li_imm(ch))).collect(),
                    ));
                }
                1 => data.push(Line::Dir(
                    ".asciz".into(),
                    vec![Opd::S(
                        ch.pick(&["hello", "a b, c", "", "x # not a comment", "tab\\tq"])
                            .to_string(),
                    )],
                )),
                2 => data.push(Line::Dir(".space".into(), vec![i(ch.int_in(1, 64))])),
                3 => data.push(Line::Dir(
                    ".byte".into(),
                    vec![i(ch.int_in(0, 255)), i(ch.int_in(0, 255))],
                )),
                _ => {
                    data.push(Line::Dir(".align".into(), vec![i(2)]));
                    data.push(Line::Dir(".half".into(), vec![i(ch.int_in(0, 65535))]));
                }
            }
        }
    }
    let data_first = has_data && ch.chance(1, 2);
    if data_first {
        lines.extend(data.clone());
        lines.push(Line::Dir(".text".into(), vec![]));
    } else if ch.chance(1, 4) {
        lines.push(Line::Dir(".text".into(), vec![]));
    }
    if ch.chance(3, 4) {
        lines.push(label("main"));
    }
    lines.extend(body(ch, "m", o.max_body, &funcs, &data_labels, o, &mut info));
    // exit
    if ch.chance(1, 3) {
        lines.push(ins("li", vec![r(A0), i(ch.int_in(0, 3))]));
        lines.push(ins("li", vec![r(A7), i(93)]));
    } else {
        lines.push(ins("li", vec![r(A7), i(10)]));
    }
    lines.push(ins("ecall", vec![]));
    for (k, f) in funcs.iter().enumerate() {
        lines.push(Line::Label(f.clone()));
        // callees may call later functions only (keeps every function returning)
        let later: Vec<String> = funcs[k + 1..].to_vec();
        let callable = if ch.chance(1, 4) { funcs.clone() } else { later };
        lines.extend(body(
            ch,
            &format!("f{k}"),
            o.max_body,
            &callable,
            &data_labels,
            o,
            &mut info,
        ));
        match ch.weighted(&[6, 1, 1]) {
            0 => lines.push(ins("ret", vec![])),
            1 => lines.push(ins("jr", vec![r(RA)])),
            _ => lines.push(ins("jalr", vec![r(ZERO), r(RA), i(0)])),
        }
    }
    if has_data && !data_first {
        lines.extend(data);
    }
    (lines, info)
}
