//! Spawning the `rva` binary (built from /repo by `./check`) and parsing its
//! three output formats.

use std::io::Read;
use std::path::{Path, PathBuf};
use std::process::{Command, Stdio};
use std::time::{Duration, Instant};

use serde::{Deserialize, Serialize};

use crate::runner::cache_dir;

pub fn rva_path(release: bool) -> PathBuf {
    cache_dir()
        .join("rva-target")
        .join(if release { "release" } else { "debug" })
        .join("rva")
}

#[derive(Clone, Debug, Default)]
pub struct Run {
    pub status: Option<i32>,
    pub signal: Option<i32>,
    pub stdout: String,
    pub stderr: String,
    pub timed_out: bool,
    pub wall_ms: u128,
}

impl Run {
    pub fn clean_exit(&self) -> bool {
        self.status == Some(0) && !self.timed_out
    }
    /// killed by the CPU-time limit (SIGXCPU / SIGKILL after 10-11 s of CPU time)
    pub fn cpu_limit_hit(&self) -> bool {
        self.signal == Some(libc::SIGXCPU) || (self.signal == Some(libc::SIGKILL) && !self.timed_out)
    }
}

/// Run `rva <args>` in `cwd` with a wall-clock watchdog and an address-space limit.
pub fn run_rva(release: bool, args: &[&str], cwd: &Path, timeout: Duration) -> Run {
    use std::os::unix::process::CommandExt;
    use std::os::unix::process::ExitStatusExt;
    let mut cmd = Command::new(rva_path(release));
    cmd.args(args)
        .current_dir(cwd)
        .stdin(Stdio::null())
        .stdout(Stdio::piped())
        .stderr(Stdio::piped())
        .env("NO_COLOR", "")
        .env_remove("NO_COLOR")
        .env("CLICOLOR_FORCE", "1");
    unsafe {
        cmd.pre_exec(|| {
            // 2 GiB address space: unbounded recursion / allocation becomes an abort, not a hang
            let lim = libc::rlimit {
                rlim_cur: 2 << 30,
                rlim_max: 2 << 30,
            };
            libc::setrlimit(libc::RLIMIT_AS, &lim);
            // CPU time (not wall clock): independent of the load of the machine. Linting a
            // few kilobytes takes milliseconds; 10 s of CPU is a deterministic sign of
            // non-termination or super-polynomial work.
            let cpu = libc::rlimit {
                rlim_cur: 10,
                rlim_max: 11,
            };
            libc::setrlimit(libc::RLIMIT_CPU, &cpu);
            Ok(())
        });
    }
    let t0 = Instant::now();
    let mut child = match cmd.spawn() {
        Ok(c) => c,
        Err(e) => {
            return Run {
                stderr: format!("cannot spawn rva: {e}"),
                ..Default::default()
            }
        }
    };
    let mut out = child.stdout.take().unwrap();
    let mut err = child.stderr.take().unwrap();
    let h1 = std::thread::spawn(move || {
        let mut s = Vec::new();
        let _ = out.take(64 << 20).read_to_end(&mut s);
        String::from_utf8_lossy(&s).into_owned()
    });
    let h2 = std::thread::spawn(move || {
        let mut s = Vec::new();
        let _ = err.take(4 << 20).read_to_end(&mut s);
        String::from_utf8_lossy(&s).into_owned()
    });
    let mut timed_out = false;
    let status = loop {
        match child.try_wait() {
            Ok(Some(st)) => break Some(st),
            Ok(None) => {
                if t0.elapsed() > timeout {
                    timed_out = true;
                    let _ = child.kill();
                    break child.wait().ok();
                }
                std::thread::sleep(Duration::from_millis(2));
            }
            Err(_) => break None,
        }
    };
    let stdout = h1.join().unwrap_or_default();
    let stderr = h2.join().unwrap_or_default();
    Run {
        status: status.and_then(|s| s.code()),
        signal: status.and_then(|s| s.signal()),
        stdout,
        stderr,
        timed_out,
        wall_ms: t0.elapsed().as_millis(),
    }
}

/// One diagnostic as shown by a CLI channel (1-based line and columns).
#[derive(Clone, Debug, PartialEq, Eq, PartialOrd, Ord, Serialize, Deserialize)]
pub struct Shown {
    pub file: String,
    pub line: usize,
    pub col_start: usize,
    pub col_end: usize,
    pub level: String,
    pub title: String,
}

pub fn strip_ansi(s: &str) -> String {
    let mut out = String::new();
    let mut it = s.chars().peekable();
    while let Some(c) = it.next() {
        if c == '\u{1b}' && it.peek() == Some(&'[') {
            it.next();
            for d in it.by_ref() {
                if d.is_ascii_alphabetic() {
                    break;
                }
            }
        } else {
            out.push(c);
        }
    }
    out
}

const LEVELS: [&str; 4] = ["Error", "Warning", "Info", "Hint"];

/// `{level}: {title} in {path} at {line} {start}:{end}` — anchored from the right on the known paths.
pub fn parse_compact(out: &str, paths: &[String]) -> Result<(Vec<Shown>, usize), String> {
    let mut v = vec![];
    let mut others = 0;
    for line in out.lines() {
        if line.is_empty() {
            continue;
        }
        if let Some(n) = parse_other_files_line(line) {
            others = n;
            continue;
        }
        let (level, rest) = LEVELS
            .iter()
            .find_map(|l| line.strip_prefix(&format!("{l}: ")).map(|r| (l.to_string(), r)))
            .ok_or_else(|| format!("compact line without level: {line:?}"))?;
        if rest.contains(" in <unknown file> at ") && !paths.iter().any(|p| rest.contains(&format!(" in {p} at "))) {
            return Err(format!("diagnostic without file: {line:?}"));
        }
        let mut best: Option<(usize, &String)> = None;
        for p in paths {
            if let Some(pos) = rest.rfind(&format!(" in {p} at ")) {
                let better = match best {
                    None => true,
                    Some((bp, bq)) => pos > bp || (pos == bp && p.len() > bq.len()),
                };
                if better {
                    best = Some((pos, p));
                }
            }
        }
        let (pos, path) = best.ok_or_else(|| format!("compact line without known path: {line:?}"))?;
        let title = rest[..pos].to_string();
        let tail = &rest[pos + format!(" in {path} at ").len()..];
        let mut it = tail.split(' ');
        let ln: usize = it.next().and_then(|x| x.parse().ok()).ok_or_else(|| format!("bad line number: {line:?}"))?;
        let cols = it.next().ok_or_else(|| format!("no columns: {line:?}"))?;
        let (a, b) = cols.split_once(':').ok_or_else(|| format!("bad columns: {line:?}"))?;
        v.push(Shown {
            file: path.clone(),
            line: ln,
            col_start: a.parse().map_err(|_| format!("bad column: {line:?}"))?,
            col_end: b.parse().map_err(|_| format!("bad column: {line:?}"))?,
            level,
            title,
        });
    }
    Ok((v, others))
}

fn parse_other_files_line(line: &str) -> Option<usize> {
    let rest = line.strip_suffix(" found in other files. To see all errors, run with the `--all-files` option.")?;
    let (n, word) = rest.split_once(' ')?;
    if word == "diagnostic" || word == "diagnostics" {
        n.parse().ok()
    } else {
        None
    }
}

#[derive(Clone, Debug, PartialEq, Eq, Serialize, Deserialize)]
pub struct PrettyItem {
    pub shown: Shown,
    /// the excerpt line as printed (trimmed source line), if any
    pub excerpt: Option<String>,
    /// zero-based offset of the first caret inside the excerpt line and the number of carets
    pub carets: Option<(usize, usize)>,
    /// the marker line as printed, behind the bar and one blank
    #[serde(default)]
    pub marker: Option<String>,
    /// character column of the bar `|` in the three excerpt lines (gutter, source line, marker line)
    #[serde(default)]
    pub bars: Option<(usize, usize, usize)>,
}

/// Pretty format:
/// ```text
/// {level}: {title}
///  in file: {path}
/// {spc} |
///  {line} | {text}
/// {spc} | {carets}
///
/// ```
pub fn parse_pretty(out: &str) -> Result<(Vec<PrettyItem>, usize), String> {
    let lines: Vec<&str> = out.split('\n').collect();
    let mut v = vec![];
    let mut others = 0;
    let mut k = 0;
    while k < lines.len() {
        let line = lines[k];
        if line.is_empty() {
            k += 1;
            continue;
        }
        if let Some(n) = parse_other_files_line(line) {
            others = n;
            k += 1;
            continue;
        }
        let (level, title) = LEVELS
            .iter()
            .find_map(|l| line.strip_prefix(&format!("{l}: ")).map(|r| (l.to_string(), r.to_string())))
            .ok_or_else(|| format!("pretty block does not start with a level: {line:?}"))?;
        let file = lines
            .get(k + 1)
            .and_then(|l| l.strip_prefix(" in file: "))
            .ok_or_else(|| format!("no ' in file:' line after {line:?}"))?
            .to_string();
        k += 2;
        let mut item = PrettyItem {
            shown: Shown {
                file,
                line: 0,
                col_start: 0,
                col_end: 0,
                level,
                title,
            },
            excerpt: None,
            carets: None,
            marker: None,
            bars: None,
        };
        // optional excerpt: three lines
        if k + 2 < lines.len() && lines[k].trim_start().starts_with('|') && lines[k].trim() == "|" {
            let l2 = lines[k + 1];
            let l3 = lines[k + 2];
            let (num, text) = l2
                .trim_start()
                .split_once(" | ")
                .map(|(a, b)| (a.to_string(), b.to_string()))
                .or_else(|| l2.trim_start().strip_suffix(" |").map(|a| (a.to_string(), String::new())))
                .ok_or_else(|| format!("bad excerpt line {l2:?}"))?;
            item.shown.line = num.trim().parse().map_err(|_| format!("bad excerpt line number {l2:?}"))?;
            let bar = l3.find('|').ok_or_else(|| format!("bad caret line {l3:?}"))?;
            let marks: Vec<char> = l3[bar + 1..].chars().skip(1).collect();
            let first = marks.iter().position(|c| *c == '^');
            let count = marks.iter().filter(|c| **c == '^').count();
            item.carets = first.map(|f| (f, count));
            item.marker = Some(marks.iter().collect());
            let col = |l: &str| l.chars().position(|c| c == '|').unwrap_or(usize::MAX);
            item.bars = Some((col(lines[k]), col(l2), col(l3)));
            item.excerpt = Some(text);
            k += 3;
        }
        v.push(item);
    }
    Ok((v, others))
}

#[derive(Clone, Debug, Deserialize)]
pub struct JsonPos {
    pub line: usize,
    pub column: usize,
    pub raw: usize,
}
#[derive(Clone, Debug, Deserialize)]
pub struct JsonRange {
    pub start: JsonPos,
    pub end: JsonPos,
}
#[derive(Clone, Debug, Deserialize)]
#[serde(deny_unknown_fields)]
pub struct JsonDiag {
    pub file: Option<String>,
    pub title: String,
    pub description: String,
    pub level: String,
    pub range: JsonRange,
}
#[derive(Clone, Debug, Deserialize)]
#[serde(deny_unknown_fields)]
pub struct JsonOut {
    pub diagnostics: Vec<JsonDiag>,
}

pub fn parse_json(out: &str) -> Result<Vec<JsonDiag>, String> {
    let j: JsonOut = serde_json::from_str(out).map_err(|e| format!("not JSON of the documented shape: {e}"))?;
    Ok(j.diagnostics)
}

/// Fresh scratch directory under the cache (removed by the caller).
pub fn scratch(tag: &str, n: u64) -> PathBuf {
    let d = cache_dir().join("work").join("scratch").join(format!("{tag}-{}-{n}", std::process::id()));
    let _ = std::fs::remove_dir_all(&d);
    let _ = std::fs::create_dir_all(&d);
    d
}
