//! Dynamic convention monitor: runs a program on the reference machine and
//! reports the first violation of the register / calling convention that an
//! execution actually exhibits.
//!
//! Checked per activation: callee-saved registers and sp restored at return,
//! return to the link address, no store at or above the entry sp, no read of
//! a poisoned register. Poisoned = temporaries and not-passed argument
//! registers at function entry, every caller-saved register after a call
//! (except the argument registers the callee wrote) or ecall (except its
//! result registers), saved registers of the caller until the function has
//! written them (storing them to the stack is allowed).

use crate::arch;
use crate::machine::{ecall_sig, flatten, Halt, Inputs, Kind, Machine};
use crate::model::*;
use serde::{Deserialize, Serialize};

#[derive(Clone, Debug, PartialEq, Eq, Serialize, Deserialize)]
pub struct Complaint {
    pub kind: String,
    /// model line of the offending instruction
    pub line: usize,
    pub reg: Option<u8>,
    pub detail: String,
}

#[derive(Clone, Debug, Default, Serialize, Deserialize)]
pub struct Report {
    pub complaint: Option<Complaint>,
    pub steps: u64,
    pub exited: bool,
    pub max_depth: usize,
    pub calls: usize,
}

struct Act {
    entry_regs: [u32; 32],
    poisoned: u32,
    /// argument registers defined since the last call boundary (candidates for being passed)
    fresh_args: u32,
    /// argument registers written during this activation (candidate results)
    wrote_args: u32,
    /// saved registers written in this activation
    wrote_saved: u32,
    ret_to: Option<usize>,
}

pub fn run(lines: &[Line], inp: &Inputs, budget: u64) -> Report {
    let flat = flatten(lines);
    let mut m = Machine::new(&flat, inp, budget);
    let temps = mask(&TEMPS);
    let args = mask(&ARGS);
    let saved = mask(&SAVED);
    let mut rep = Report::default();
    // main: everything is undefined except sp, ra and the program arguments
    let mut acts: Vec<Act> = vec![Act {
        entry_regs: m.regs,
        poisoned: temps | (args & !mask(&[10, 11])) | mask(&[3, 4]),
        fresh_args: 0,
        wrote_args: 0,
        wrote_saved: saved, // main owns the saved registers
        ret_to: None,
    }];
    // main may not read saved registers before writing them either
    acts[0].poisoned |= saved;
    loop {
        let depth = m.acts.len();
        let Some(s) = m.step() else { break };
        rep.steps += 1;
        rep.max_depth = rep.max_depth.max(m.acts.len());
        let Line::Ins(ins) = &lines[s.line] else { break };
        let cur = acts.len() - 1;
        let complain = |kind: &str, reg: Option<u8>, detail: String| Complaint {
            kind: kind.to_string(),
            line: s.line,
            reg,
            detail,
        };
        // reads
        let (mut reads, _) = arch::rw(ins);
        if let Kind::Ecall { num, .. } = s.kind {
            reads = (1 << A7) | ecall_sig(num).map(|(a, _)| mask(a)).unwrap_or(0);
        }
        // saving a callee-saved register (or ra) to the stack is not a use of its value
        let is_save = matches!(ins.mn.as_str(), "sw")
            && matches!(ins.ops.get(1), Some(Opd::M(_, 2)))
            && matches!(ins.ops.first(), Some(Opd::R(x)) if SAVED.contains(x) || *x == RA);
        if is_save {
            if let Some(Opd::R(x)) = ins.ops.first() {
                reads &= !(1u32 << x);
            }
        }
        let bad = reads & acts[cur].poisoned;
        if bad != 0 {
            let r = bad.trailing_zeros() as u8;
            let kind = if saved & (1 << r) != 0 {
                "read-unowned-saved-register"
            } else {
                "read-undefined-register"
            };
            rep.complaint = Some(complain(kind, Some(r), format!("{} is read but holds no value of this function", ABI[r as usize])));
            return rep;
        }
        // stores at or above the entry sp
        if let Some((a, _, _)) = s.mem_write {
            let esp = acts[cur].entry_regs[SP as usize];
            if cur > 0 && a >= esp && (0x7000_0000..0x8000_0000).contains(&a) {
                rep.complaint = Some(complain("store-at-or-above-entry-sp", None, format!("store to {a:#x}, entry sp {esp:#x}")));
                return rep;
            }
        }
        // writes
        let mut written = s.write.map(|w| 1u32 << w.0).unwrap_or(0);
        for (r, _) in &s.env_writes {
            written |= 1 << r;
        }
        match s.kind {
            Kind::Call { .. } => {
                rep.calls += 1;
                let passed = acts[cur].fresh_args;
                // the call itself defines ra
                acts[cur].poisoned &= !(1 << RA);
                acts.push(Act {
                    entry_regs: m.regs,
                    poisoned: temps | (args & !passed) | saved | mask(&[3, 4]),
                    fresh_args: 0,
                    wrote_args: 0,
                    wrote_saved: 0,
                    ret_to: Some(s.idx + 1),
                });
                continue;
            }
            Kind::Ret => {
                if m.acts.len() < depth && acts.len() > 1 {
                    let done = acts.pop().unwrap();
                    // convention at return
                    for r in SAVED.iter().chain([SP].iter()) {
                        if m.regs[*r as usize] != done.entry_regs[*r as usize] {
                            rep.complaint = Some(complain(
                                if *r == SP { "sp-not-restored" } else { "saved-register-not-restored" },
                                Some(*r),
                                format!("{} is {:#x} at return, was {:#x} at entry", ABI[*r as usize], m.regs[*r as usize], done.entry_regs[*r as usize]),
                            ));
                            return rep;
                        }
                    }
                    // after the call: caller-saved registers hold nothing, except what the callee left
                    let cur = acts.len() - 1;
                    acts[cur].poisoned |= temps | args;
                    acts[cur].poisoned &= !(done.wrote_args & args);
                    acts[cur].fresh_args = 0;
                    continue;
                }
                // return that does not match the call: wrong ra (or return from main)
                if acts.len() > 1 {
                    rep.complaint = Some(complain("return-to-wrong-address", Some(RA), "ret does not return to the caller".into()));
                    return rep;
                }
                break;
            }
            Kind::Ecall { num, exits } => {
                if exits {
                    rep.exited = true;
                    break;
                }
                let rets = ecall_sig(num).map(|(_, r)| mask(r)).unwrap_or(0);
                acts[cur].poisoned |= temps | args;
                acts[cur].poisoned &= !rets;
                acts[cur].fresh_args = 0;
                acts[cur].wrote_args |= rets;
                continue;
            }
            _ => {}
        }
        acts[cur].poisoned &= !written;
        acts[cur].fresh_args |= written & args;
        acts[cur].wrote_args |= written & args;
        acts[cur].wrote_saved |= written & saved;
        if s.next.is_none() {
            break;
        }
    }
    if let Some(Halt::Trap(t)) = &m.halted {
        rep.complaint = Some(Complaint {
            kind: "trap".into(),
            line: 0,
            reg: None,
            detail: t.clone(),
        });
    }
    rep
}

#[cfg(test)]
mod tests {
    use super::*;
    use crate::choice::Choices;

    fn prog(body: Vec<Line>) -> Vec<Line> {
        let mut p = vec![
            label("main"),
            ins("li", vec![r(10), i(5)]),
            ins("jal", vec![l("f")]),
            ins("add", vec![r(10), r(10), r(10)]),
            ins("li", vec![r(17), i(1)]),
            ins("ecall", vec![]),
            ins("li", vec![r(17), i(10)]),
            ins("ecall", vec![]),
            label("f"),
        ];
        p.extend(body);
        p
    }

    fn kinds(p: &[Line]) -> Option<String> {
        let inp = Inputs::from_choices(&mut Choices::new(&[7, 11, 13]));
        run(p, &inp, 2000).complaint.map(|c| c.kind)
    }

    #[test]
    fn conforming_function_passes() {
        let p = prog(vec![
            ins("addi", vec![r(2), r(2), i(-8)]),
            ins("sw", vec![r(1), m(4, 2)]),
            ins("sw", vec![r(8), m(0, 2)]),
            ins("mv", vec![r(8), r(10)]),
            ins("addi", vec![r(10), r(8), i(1)]),
            ins("lw", vec![r(8), m(0, 2)]),
            ins("lw", vec![r(1), m(4, 2)]),
            ins("addi", vec![r(2), r(2), i(8)]),
            ins("ret", vec![]),
        ]);
        assert_eq!(kinds(&p), None);
    }

    #[test]
    fn violations_are_seen() {
        // a saved register changed and not restored
        let p = prog(vec![ins("li", vec![r(9), i(3)]), ins("add", vec![r(10), r(10), r(9)]), ins("ret", vec![])]);
        assert_eq!(kinds(&p).as_deref(), Some("saved-register-not-restored"));
        // sp not restored
        let p = prog(vec![ins("addi", vec![r(2), r(2), i(-8)]), ins("addi", vec![r(10), r(10), i(1)]), ins("ret", vec![])]);
        assert!(matches!(kinds(&p).as_deref(), Some("sp-not-restored") | Some("return-to-wrong-address")));
        // a temporary that was never assigned is read
        let p = prog(vec![ins("add", vec![r(10), r(10), r(28)]), ins("ret", vec![])]);
        assert_eq!(kinds(&p).as_deref(), Some("read-undefined-register"));
    }
}
