//! Path arithmetic for include trees, the way a file system resolves them: an include path is
//! relative to the directory of the file that contains the directive.

/// Normalise `a/./b/../c` to `a/c`; a leading `/` is kept, leading `..` that cannot be popped stay.
pub fn normalise(path: &str) -> String {
    let abs = path.starts_with('/');
    let mut out: Vec<&str> = vec![];
    for c in path.split('/') {
        match c {
            "" | "." => {}
            ".." => {
                if matches!(out.last(), Some(x) if *x != "..") {
                    out.pop();
                } else if !abs {
                    out.push("..");
                }
            }
            x => out.push(x),
        }
    }
    format!("{}{}", if abs { "/" } else { "" }, out.join("/"))
}

pub fn dir_of(file: &str) -> &str {
    file.rsplit_once('/').map(|(d, _)| d).unwrap_or("")
}

/// The file an include directive written in `parent` names.
pub fn resolve(parent: &str, path: &str) -> String {
    if path.starts_with('/') {
        return normalise(path);
    }
    let d = dir_of(parent);
    if d.is_empty() && !parent.starts_with('/') {
        normalise(path)
    } else {
        normalise(&format!("{d}/{path}"))
    }
}

/// A path that, written in `from_file`, names `to_file` (both normalised names).
pub fn relpath(from_file: &str, to_file: &str) -> String {
    if to_file.starts_with('/') {
        return to_file.to_string();
    }
    let from: Vec<&str> = dir_of(from_file).split('/').filter(|c| !c.is_empty()).collect();
    let to: Vec<&str> = to_file.split('/').collect();
    let (to_dir, to_name) = to.split_at(to.len() - 1);
    let mut common = 0;
    while common < from.len() && common < to_dir.len() && from[common] == to_dir[common] && from[common] != ".." {
        common += 1;
    }
    let mut parts: Vec<String> = vec![];
    for _ in common..from.len() {
        parts.push("..".into());
    }
    for c in &to_dir[common..] {
        parts.push((*c).to_string());
    }
    parts.push(to_name[0].to_string());
    parts.join("/")
}

#[cfg(test)]
mod tests {
    use super::*;
    #[test]
    fn round_trip() {
        let files = ["main.s", "prog/main.s", "lib/a.s", "shared/x/b.s", "sub/x.s", "sub/sub/y.s", "/abs/inc/z.s"];
        for f in files {
            for t in files {
                if f.starts_with('/') {
                    continue;
                }
                assert_eq!(resolve(f, &relpath(f, t)), normalise(t), "{f} -> {t} via {}", relpath(f, t));
            }
        }
        assert_eq!(normalise("./sub/.././x.s"), "x.s");
        assert_eq!(normalise("sub/../x.s"), "x.s");
        assert_eq!(resolve("sub/lib.s", "util.s"), "sub/util.s");
        assert_eq!(resolve("sub/lib.s", "../util.s"), "util.s");
    }
}
