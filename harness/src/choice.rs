//! Choice sequences: every generator is a function of a `&[u32]`.
//!
//! An exhausted sequence answers 0, which every generator maps to its
//! simplest (and terminating) alternative. Index mapping is monotone
//! (`(x * n) >> 32`), never `%`, so that shrinking a choice toward 0 shrinks
//! the generated structure toward its first alternative.

pub struct Choices<'a> {
    data: &'a [u32],
    pos: usize,
}

impl<'a> Choices<'a> {
    pub fn new(data: &'a [u32]) -> Self {
        Choices { data, pos: 0 }
    }

    pub fn exhausted(&self) -> bool {
        self.pos >= self.data.len()
    }

    pub fn used(&self) -> usize {
        self.pos
    }

    pub fn raw(&mut self) -> u32 {
        let v = self.data.get(self.pos).copied().unwrap_or(0);
        self.pos += 1;
        v
    }

    /// Uniform-ish in `0..n`; `n <= 1` consumes nothing.
    pub fn below(&mut self, n: usize) -> usize {
        if n <= 1 {
            return 0;
        }
        ((self.raw() as u64 * n as u64) >> 32) as usize
    }

    /// Inclusive range, `lo` is the simplest value.
    pub fn int_in(&mut self, lo: i64, hi: i64) -> i64 {
        debug_assert!(lo <= hi);
        let span = (hi - lo) as u64 + 1;
        if span <= 1 {
            return lo;
        }
        lo + ((self.raw() as u64 as u128 * span as u128) >> 32) as i64
    }

    /// True with probability `num/den`; a zero choice is always `false`.
    pub fn chance(&mut self, num: usize, den: usize) -> bool {
        if num == 0 {
            return false;
        }
        self.below(den) >= den - num.min(den)
    }

    pub fn pick<'b, T>(&mut self, items: &'b [T]) -> &'b T {
        &items[self.below(items.len())]
    }

    pub fn pick_str(&mut self, items: &[&'static str]) -> &'static str {
        items[self.below(items.len())]
    }

    /// Weighted index; the first non-zero weight is the simplest alternative.
    pub fn weighted(&mut self, weights: &[u32]) -> usize {
        let total: u64 = weights.iter().map(|w| *w as u64).sum();
        if total == 0 {
            return 0;
        }
        let mut x = (self.raw() as u64 * total) >> 32;
        for (i, w) in weights.iter().enumerate() {
            if x < *w as u64 {
                return i;
            }
            x -= *w as u64;
        }
        weights.len() - 1
    }

    /// A 32-bit value biased toward boundaries; 0 is the simplest.
    pub fn word(&mut self) -> u32 {
        const B: [u32; 24] = [
            0,
            1,
            2,
            3,
            4,
            7,
            8,
            31,
            32,
            33,
            0x7ff,
            0x800,
            0xfff,
            0x1000,
            0xffff,
            0x7fff_ffff,
            0x8000_0000,
            0x8000_0001,
            0xffff_ffff,
            0xffff_fffe,
            0xffff_f800,
            0xffff_f7ff,
            0x5555_5555,
            0xaaaa_aaaa,
        ];
        match self.weighted(&[5, 3, 2]) {
            0 => *self.pick(&B),
            1 => self.int_in(-64, 64) as i32 as u32,
            _ => self.raw(),
        }
    }
}
