use rvverif::{adapter, props, runner};

use std::path::PathBuf;

use runner::{Ctx, Tier};

fn usage() -> ! {
    eprintln!("usage: rvverif check <ID> <quick|thorough> [seed] | replay <ID> <file> | list");
    std::process::exit(2)
}

fn main() {
    adapter::install_panic_hook();
    let args: Vec<String> = std::env::args().collect();
    let reg = props::registry();
    let find = |id: &str| {
        reg.iter().find(|e| e.id == id).unwrap_or_else(|| {
            eprintln!("unknown property {id}");
            std::process::exit(2)
        })
    };
    match args.get(1).map(String::as_str) {
        Some("list") => {
            for e in &reg {
                println!("{}", e.id);
            }
        }
        Some("check") => {
            let e = find(args.get(2).unwrap_or_else(|| usage()));
            let tier = Tier::parse(args.get(3).map(String::as_str).unwrap_or("quick"))
                .unwrap_or_else(|| usage());
            let seed: u64 = args
                .get(4)
                .and_then(|s| s.parse().ok())
                .or_else(|| std::env::var("VERIF_SEED").ok().and_then(|s| s.parse().ok()))
                .unwrap_or(1);
            let out = runner::run_check(e, tier, seed);
            std::process::exit(out.exit);
        }
        Some("shard") => {
            // shard <ID> <tier> <seed> <shard> <cases> <out> <current> <enumerate|->
            if args.len() < 10 {
                usage();
            }
            let e = find(&args[2]);
            let tier = Tier::parse(&args[3]).unwrap_or_else(|| usage());
            let seed: u64 = args[4].parse().unwrap_or(1);
            let shard: u64 = args[5].parse().unwrap_or(0);
            let cases: u32 = args[6].parse().unwrap_or(0);
            let stats = runner::run_shard(
                e,
                tier,
                seed,
                shard,
                cases,
                &PathBuf::from(&args[8]),
                args[9] == "enumerate",
            );
            std::fs::write(&args[7], serde_json::to_string(&stats).unwrap()).unwrap();
        }
        Some("one") => {
            // one <ID> <tier> <choices.json>: run a single case from its choice vector
            let e = find(args.get(2).unwrap_or_else(|| usage()));
            let tier = Tier::parse(args.get(3).map(String::as_str).unwrap_or("quick"))
                .unwrap_or_else(|| usage());
            let text = std::fs::read_to_string(args.get(4).unwrap_or_else(|| usage())).unwrap();
            let v: serde_json::Value = serde_json::from_str(&text).unwrap();
            let arr = v.get("choices").cloned().unwrap_or(v);
            let choices: Vec<u32> = serde_json::from_value(arr).unwrap();
            let mut ctx = Ctx::default();
            runner::start_case_watchdog();
            runner::case_started();
            let out = (e.run)(&choices, tier, &mut ctx);
            if let Some(c) = &out.case {
                println!("{}", serde_json::to_string_pretty(c.get("shown").unwrap_or(c)).unwrap());
            }
            println!("labels={:?} skips={:?} facts={:?} nontrivial={}", ctx.labels, ctx.skips, ctx.facts, ctx.nontrivial);
            for v in &out.violations {
                println!("violation sig={:?}\n{}", v.sig, v.msg);
            }
            std::process::exit(if out.violations.is_empty() { 0 } else { 1 });
        }
        Some("gen") => {
            // rvverif gen <ID> <tier> <choices.json>: print the generated case without running anything
            let e = find(args.get(2).unwrap_or_else(|| usage()));
            let tier = if args.get(3).map(|s| s.as_str()) == Some("thorough") { Tier::Thorough } else { Tier::Quick };
            let text = std::fs::read_to_string(args.get(4).unwrap_or_else(|| usage())).unwrap_or_default();
            let choices: Vec<u32> = serde_json::from_str(text.trim()).unwrap_or_default();
            match (e.gen_only)(&choices, tier) {
                Some(v) => println!("{}", serde_json::to_string_pretty(&v).unwrap_or_default()),
                None => println!("generator rejects these choices"),
            }
        }
        Some("replay") => {
            let e = find(args.get(2).unwrap_or_else(|| usage()));
            let path = PathBuf::from(args.get(3).unwrap_or_else(|| usage()));
            match runner::replay_file(e, &path) {
                Ok(vs) if vs.is_empty() => {
                    println!("replay {}: property holds on this input", path.display());
                }
                Ok(vs) => {
                    println!("VIOLATION property={} replay={}", e.id, path.display());
                    for v in vs {
                        println!("  sig={:?}\n  {}", v.sig, v.msg);
                    }
                    std::process::exit(1);
                }
                Err(err) => {
                    eprintln!("cannot replay: {err}");
                    std::process::exit(2);
                }
            }
        }
        _ => usage(),
    }
}
