//! Property runner: proptest wiring, sharding over worker processes,
//! classification counters, shrinking, replay files, evidence, known findings.

use std::collections::{BTreeMap, BTreeSet};
use std::fs;
use std::io::{Seek, SeekFrom, Write};
use std::path::{Path, PathBuf};
use std::process::{Command, Stdio};
use std::time::Instant;

use proptest::collection::vec;
use proptest::prelude::any;
use proptest::test_runner::{Config, RngSeed, TestCaseError, TestError, TestRunner};
use serde::de::DeserializeOwned;
use serde::{Deserialize, Serialize};
use serde_json::{json, Value};

use crate::choice::Choices;

#[derive(Clone, Copy, Debug, PartialEq, Eq, Serialize, Deserialize)]
pub enum Tier {
    Quick,
    Thorough,
}

impl Tier {
    pub fn name(&self) -> &'static str {
        match self {
            Tier::Quick => "quick",
            Tier::Thorough => "thorough",
        }
    }
    pub fn parse(s: &str) -> Option<Tier> {
        match s {
            "quick" => Some(Tier::Quick),
            "thorough" => Some(Tier::Thorough),
            _ => None,
        }
    }
}

#[derive(Clone, Debug, Serialize, Deserialize)]
pub struct Violation {
    /// narrow, stable description of *what kind* of failure this is
    pub sig: BTreeMap<String, String>,
    pub msg: String,
}

impl Violation {
    pub fn new(msg: impl Into<String>) -> Self {
        Violation {
            sig: BTreeMap::new(),
            msg: msg.into(),
        }
    }
    pub fn with(mut self, k: &str, v: impl Into<String>) -> Self {
        self.sig.insert(k.to_string(), v.into());
        self
    }
}

/// Per-case context: classification labels, counters, non-triviality.
#[derive(Clone, Debug, Default)]
pub struct Ctx {
    pub thorough: bool,
    pub labels: BTreeSet<String>,
    pub facts: BTreeMap<String, u64>,
    pub skips: BTreeMap<String, u64>,
    pub maxima: BTreeMap<String, u64>,
    pub nontrivial: bool,
    pub hash: Option<u64>,
}

impl Ctx {
    pub fn label(&mut self, l: impl Into<String>) {
        self.labels.insert(l.into());
    }
    pub fn fact(&mut self, k: &str, n: u64) {
        *self.facts.entry(k.to_string()).or_insert(0) += n;
    }
    pub fn skip(&mut self, k: &str) {
        *self.skips.entry(k.to_string()).or_insert(0) += 1;
    }
    pub fn max(&mut self, k: &str, v: u64) {
        let e = self.maxima.entry(k.to_string()).or_insert(0);
        *e = (*e).max(v);
    }
}

pub trait Prop {
    type Case: Serialize + DeserializeOwned;
    /// `None` = generator reject (counted, must stay rare).
    fn gen(ch: &mut Choices, tier: Tier) -> Option<Self::Case>;
    fn check(case: &Self::Case, ctx: &mut Ctx) -> Vec<Violation>;
    /// How the case is shown in evidence / replay files.
    fn show(case: &Self::Case) -> Value {
        serde_json::to_value(case).unwrap_or(Value::Null)
    }
    /// Enumerated (non-random) part; returns (number of cases, failing cases).
    fn enumerate(_tier: Tier, _ctx: &mut Ctx) -> (u64, Vec<(Self::Case, Vec<Violation>)>) {
        (0, vec![])
    }
}

pub struct CaseOut {
    pub case: Option<Value>,
    pub violations: Vec<Violation>,
}

pub struct Entry {
    pub id: &'static str,
    pub choice_len: usize,
    pub quick_cases: u32,
    pub thorough_cases: u32,
    pub rule: &'static str,
    pub assumptions: &'static [&'static str],
    pub run: fn(&[u32], Tier, &mut Ctx) -> CaseOut,
    /// generate the case only (no analyzer code runs): {"case", "shown"}
    pub gen_only: fn(&[u32], Tier) -> Option<Value>,
    pub replay: fn(&Value, &mut Ctx) -> Result<Vec<Violation>, String>,
    pub enumerate: fn(Tier, &mut Ctx) -> (u64, Vec<(Value, Vec<Violation>)>),
    /// Extra part run once by the parent process (CLI-level checks etc.).
    pub extra: Option<fn(&ExtraArgs, &mut Stats) -> Vec<(Value, Vec<Violation>)>>,
    pub max_shards: usize,
    /// also run one shard (enumerated part included) with the release-profile binary
    pub release_too: bool,
}

pub struct ExtraArgs {
    pub tier: Tier,
    pub seed: u64,
    pub work: PathBuf,
}

fn hash_value(v: &Value) -> u64 {
    // FNV-1a over the canonical JSON text (deterministic across processes)
    let s = serde_json::to_string(v).unwrap_or_default();
    let mut h: u64 = 0xcbf29ce484222325;
    for b in s.as_bytes() {
        h ^= *b as u64;
        h = h.wrapping_mul(0x100000001b3);
    }
    h
}

pub fn entry<P: Prop>(
    id: &'static str,
    choice_len: usize,
    quick_cases: u32,
    thorough_cases: u32,
    rule: &'static str,
    assumptions: &'static [&'static str],
) -> Entry {
    fn run<P: Prop>(ch: &[u32], tier: Tier, ctx: &mut Ctx) -> CaseOut {
        let mut c = Choices::new(ch);
        match P::gen(&mut c, tier) {
            None => {
                ctx.skip("generator_reject");
                CaseOut {
                    case: None,
                    violations: vec![],
                }
            }
            Some(case) => {
                let violations = P::check(&case, ctx);
                let shown = P::show(&case);
                if ctx.hash.is_none() {
                    ctx.hash = Some(hash_value(&shown));
                }
                CaseOut {
                    case: Some(json!({"case": serde_json::to_value(&case).unwrap_or(Value::Null), "shown": shown})),
                    violations,
                }
            }
        }
    }
    fn gen_only<P: Prop>(ch: &[u32], tier: Tier) -> Option<Value> {
        let mut c = Choices::new(ch);
        P::gen(&mut c, tier).map(|case| json!({"case": serde_json::to_value(&case).unwrap_or(Value::Null), "shown": P::show(&case)}))
    }
    fn replay<P: Prop>(v: &Value, ctx: &mut Ctx) -> Result<Vec<Violation>, String> {
        let case: P::Case = serde_json::from_value(v.clone()).map_err(|e| e.to_string())?;
        Ok(P::check(&case, ctx))
    }
    fn enumerate<P: Prop>(tier: Tier, ctx: &mut Ctx) -> (u64, Vec<(Value, Vec<Violation>)>) {
        let (n, fails) = P::enumerate(tier, ctx);
        (
            n,
            fails
                .into_iter()
                .map(|(c, v)| {
                    (
                        json!({"case": serde_json::to_value(&c).unwrap_or(Value::Null), "shown": P::show(&c)}),
                        v,
                    )
                })
                .collect(),
        )
    }
    Entry {
        id,
        choice_len,
        quick_cases,
        thorough_cases,
        rule,
        assumptions,
        run: run::<P>,
        gen_only: gen_only::<P>,
        replay: replay::<P>,
        enumerate: enumerate::<P>,
        extra: None,
        max_shards: 16,
        release_too: false,
    }
}

// ---------------------------------------------------------------------------
// known findings

#[derive(Clone, Debug, Serialize, Deserialize)]
pub struct Finding {
    pub id: String,
    pub property: String,
    /// "open" or "fixed"
    pub status: String,
    #[serde(default)]
    pub commit: Option<String>,
    pub what: String,
    #[serde(default)]
    pub pinned_replay: Option<String>,
    /// all keys must match the violation's signature
    #[serde(default)]
    pub signature: BTreeMap<String, String>,
    #[serde(default)]
    pub root_cause: Option<String>,
}

#[derive(Clone, Debug, Default, Serialize, Deserialize)]
pub struct Findings {
    pub findings: Vec<Finding>,
}

pub fn verif_root() -> PathBuf {
    std::env::var("VERIF_ROOT")
        .map(PathBuf::from)
        .unwrap_or_else(|_| PathBuf::from("/verif"))
}

pub fn load_findings() -> Findings {
    let p = verif_root().join("known_findings.json");
    match fs::read_to_string(&p) {
        Ok(s) => serde_json::from_str(&s).unwrap_or_else(|e| {
            eprintln!("cannot parse {}: {e}", p.display());
            std::process::exit(2)
        }),
        Err(_) => Findings::default(),
    }
}

pub fn match_finding<'a>(fs: &'a Findings, prop: &str, v: &Violation) -> Option<&'a Finding> {
    fs.findings.iter().find(|f| {
        f.property == prop
            && f.status == "open"
            && !f.signature.is_empty()
            && f.signature.iter().all(|(k, val)| v.sig.get(k) == Some(val))
    })
}

// ---------------------------------------------------------------------------
// stats

#[derive(Clone, Debug, Default, Serialize, Deserialize)]
pub struct Stats {
    pub evaluations: u64,
    pub enumerated: u64,
    pub nontrivial_hashes: BTreeSet<u64>,
    pub labels: BTreeMap<String, u64>,
    pub facts: BTreeMap<String, u64>,
    pub skips: BTreeMap<String, u64>,
    pub known_hits: BTreeMap<String, u64>,
    #[serde(default)]
    pub maxima: BTreeMap<String, u64>,
    pub samples: Vec<Value>,
    pub failures: Vec<Failure>,
    pub infra_error: Option<String>,
}

#[derive(Clone, Debug, Serialize, Deserialize)]
pub struct Failure {
    pub choices: Vec<u32>,
    pub case: Value,
    pub violations: Vec<Violation>,
    pub origin: String,
}

impl Stats {
    pub fn absorb_ctx(&mut self, ctx: &Ctx, shown: Option<&Value>) {
        self.evaluations += 1;
        for l in &ctx.labels {
            *self.labels.entry(l.clone()).or_insert(0) += 1;
        }
        for (k, n) in &ctx.facts {
            *self.facts.entry(k.clone()).or_insert(0) += n;
        }
        for (k, n) in &ctx.skips {
            *self.skips.entry(k.clone()).or_insert(0) += n;
        }
        for (k, n) in &ctx.maxima {
            let e = self.maxima.entry(k.clone()).or_insert(0);
            *e = (*e).max(*n);
        }
        if ctx.nontrivial {
            if let Some(h) = ctx.hash {
                let fresh = self.nontrivial_hashes.insert(h);
                if fresh && self.samples.len() < 3 {
                    if let Some(s) = shown {
                        self.samples.push(truncate_value(s, 4000));
                    }
                }
            }
        }
    }
    pub fn merge(&mut self, o: Stats) {
        self.evaluations += o.evaluations;
        self.enumerated += o.enumerated;
        self.nontrivial_hashes.extend(o.nontrivial_hashes);
        for (k, n) in o.labels {
            *self.labels.entry(k).or_insert(0) += n;
        }
        for (k, n) in o.facts {
            *self.facts.entry(k).or_insert(0) += n;
        }
        for (k, n) in o.skips {
            *self.skips.entry(k).or_insert(0) += n;
        }
        for (k, n) in o.known_hits {
            *self.known_hits.entry(k).or_insert(0) += n;
        }
        for (k, n) in o.maxima {
            let e = self.maxima.entry(k).or_insert(0);
            *e = (*e).max(n);
        }
        for s in o.samples {
            if self.samples.len() < 4 {
                self.samples.push(s);
            }
        }
        if self.infra_error.is_none() {
            self.infra_error = o.infra_error;
        }
    }
}

fn truncate_value(v: &Value, max: usize) -> Value {
    let s = serde_json::to_string(v).unwrap_or_default();
    if s.len() <= max {
        v.clone()
    } else {
        let mut cut = max;
        while !s.is_char_boundary(cut) {
            cut -= 1;
        }
        json!({"truncated_json": &s[..cut]})
    }
}

// ---------------------------------------------------------------------------
// per-case CPU-time watchdog (inside worker processes)

static CASE_START_CPU_MS: std::sync::atomic::AtomicU64 = std::sync::atomic::AtomicU64::new(u64::MAX);

pub fn process_cpu_ms() -> u64 {
    let mut ts = libc::timespec { tv_sec: 0, tv_nsec: 0 };
    unsafe {
        libc::clock_gettime(libc::CLOCK_PROCESS_CPUTIME_ID, &mut ts);
    }
    ts.tv_sec as u64 * 1000 + ts.tv_nsec as u64 / 1_000_000
}

/// Mark the start of a case for the watchdog.
pub fn case_started() {
    CASE_START_CPU_MS.store(process_cpu_ms(), std::sync::atomic::Ordering::Relaxed);
}

/// Abort the process when a single case has used more CPU time than the limit (default 60 s;
/// analysing a generated case takes milliseconds). CPU time, not wall clock: the verdict does
/// not depend on the load of the machine. The parent re-runs the culprit alone to confirm.
pub fn start_case_watchdog() {
    let limit_ms: u64 = std::env::var("VERIF_CASE_CPU_LIMIT_S").ok().and_then(|s| s.parse().ok()).unwrap_or(60) * 1000;
    std::thread::spawn(move || loop {
        std::thread::sleep(std::time::Duration::from_millis(500));
        let start = CASE_START_CPU_MS.load(std::sync::atomic::Ordering::Relaxed);
        if start != u64::MAX && process_cpu_ms().saturating_sub(start) > limit_ms {
            eprintln!("VERIF_CASE_CPU_LIMIT: a single case used more than {} s of CPU time", limit_ms / 1000);
            std::process::abort();
        }
    });
}

// ---------------------------------------------------------------------------
// shard worker (runs inside its own process)

pub fn shard_seed(seed: u64, shard: u64, id: &str) -> u64 {
    let mut h: u64 = 0x9e3779b97f4a7c15 ^ seed.wrapping_mul(0xbf58476d1ce4e5b9);
    for b in id.as_bytes() {
        h = (h ^ *b as u64).wrapping_mul(0x100000001b3);
    }
    h ^= shard.wrapping_mul(0x94d049bb133111eb);
    h ^= h >> 31;
    h.wrapping_mul(0xd6e8feb86659fd93)
}

pub fn run_shard(
    e: &Entry,
    tier: Tier,
    seed: u64,
    shard: u64,
    cases: u32,
    current_file: &Path,
    do_enumerate: bool,
) -> Stats {
    let findings = load_findings();
    let mut stats = Stats::default();
    start_case_watchdog();
    case_started();
    if do_enumerate {
        let mut ctx = Ctx {
            thorough: tier == Tier::Thorough,
            ..Default::default()
        };
        let (n, fails) = (e.enumerate)(tier, &mut ctx);
        stats.enumerated = n;
        for (k, c) in &ctx.facts {
            *stats.facts.entry(k.clone()).or_insert(0) += c;
        }
        for l in &ctx.labels {
            *stats.labels.entry(l.clone()).or_insert(0) += 1;
        }
        for (k, c) in &ctx.skips {
            *stats.skips.entry(k.clone()).or_insert(0) += c;
        }
        for (k, c) in &ctx.maxima {
            let e = stats.maxima.entry(k.clone()).or_insert(0);
            *e = (*e).max(*c);
        }
        for (case, vs) in fails {
            let mut unknown = vec![];
            for v in vs {
                match match_finding(&findings, e.id, &v) {
                    Some(f) => *stats.known_hits.entry(f.id.clone()).or_insert(0) += 1,
                    None => unknown.push(v),
                }
            }
            if !unknown.is_empty() && stats.failures.len() < 12 {
                stats.failures.push(Failure {
                    choices: vec![],
                    case,
                    violations: unknown,
                    origin: "enumerated".into(),
                });
            }
        }
        if !stats.failures.is_empty() {
            return stats;
        }
    }
    if cases == 0 {
        return stats;
    }
    let cur = std::cell::RefCell::new(
        fs::OpenOptions::new()
            .create(true)
            .write(true)
            .truncate(true)
            .open(current_file)
            .ok(),
    );
    let config = Config {
        cases,
        failure_persistence: None,
        rng_seed: RngSeed::Fixed(shard_seed(seed, shard, e.id)),
        max_shrink_iters: if tier == Tier::Thorough { 6000 } else { 3000 },
        max_shrink_time: if tier == Tier::Thorough { 300_000 } else { 120_000 },
        max_global_rejects: 1_000_000,
        verbose: 0,
        ..Config::default()
    };
    let mut runner = TestRunner::new(config);
    let strategy = vec(any::<u32>(), 0..=e.choice_len);
    // triage aid: VERIF_SURVEY=1 tallies violation signatures instead of stopping at the first
    let survey = std::env::var("VERIF_SURVEY").map(|v| v == "1").unwrap_or(false);
    let stats_cell = std::cell::RefCell::new(&mut stats);
    let failed = std::cell::Cell::new(false);
    let result = runner.run(&strategy, |choices| {
        if let Some(f) = cur.borrow_mut().as_mut() {
            let _ = f.seek(SeekFrom::Start(0));
            let body = serde_json::to_vec(&choices).unwrap_or_default();
            let _ = f.write_all(&body);
            let _ = f.write_all(b"\n");
            let _ = f.set_len(body.len() as u64 + 1);
        }
        let mut ctx = Ctx {
            thorough: tier == Tier::Thorough,
            ..Default::default()
        };
        case_started();
        let out = match crate::adapter::guarded(|| (e.run)(&choices, tier, &mut ctx)) {
            Ok(o) => o,
            Err(p) => {
                let mut st = stats_cell.borrow_mut();
                st.infra_error = Some(format!("harness panic: {}", p.message));
                // treat as failure so that the runner stops; reported as exit 2
                return Err(TestCaseError::fail("harness panic"));
            }
        };
        let mut unknown = false;
        let mut hits: Vec<String> = vec![];
        for v in &out.violations {
            match match_finding(&findings, e.id, v) {
                Some(f) => hits.push(f.id.clone()),
                None if survey => hits.push(format!("SURVEY {:?}", v.sig)),
                None => unknown = true,
            }
        }
        if !failed.get() {
            let mut st = stats_cell.borrow_mut();
            let shown = out.case.as_ref().and_then(|c| c.get("shown"));
            st.absorb_ctx(&ctx, shown);
            for h in hits {
                *st.known_hits.entry(h).or_insert(0) += 1;
            }
        }
        if unknown {
            failed.set(true);
            Err(TestCaseError::fail("violation"))
        } else {
            Ok(())
        }
    });
    drop(stats_cell);
    match result {
        Ok(()) => {}
        Err(TestError::Fail(_, minimal)) => {
            if stats.infra_error.is_none() {
                let mut ctx = Ctx {
                    thorough: tier == Tier::Thorough,
                    ..Default::default()
                };
                let out = (e.run)(&minimal, tier, &mut ctx);
                let unknown: Vec<Violation> = out
                    .violations
                    .into_iter()
                    .filter(|v| match_finding(&findings, e.id, v).is_none())
                    .collect();
                stats.failures.push(Failure {
                    choices: minimal,
                    case: out.case.unwrap_or(Value::Null),
                    violations: unknown,
                    origin: format!("shard {shard}"),
                });
            }
        }
        Err(TestError::Abort(r)) => {
            stats.infra_error = Some(format!("proptest aborted: {r}"));
        }
    }
    stats
}

// ---------------------------------------------------------------------------
// parent: orchestrates shards, replays, evidence

static SERIAL: std::sync::atomic::AtomicU64 = std::sync::atomic::AtomicU64::new(0);
/// Process-unique serial number (scratch directory names).
pub fn next_serial() -> u64 {
    SERIAL.fetch_add(1, std::sync::atomic::Ordering::Relaxed)
}

pub fn cache_dir() -> PathBuf {
    verif_root().join(".cache")
}

fn write_replay(id: &str, tier: Tier, seed: u64, f: &Failure) -> PathBuf {
    let dir = verif_root().join("replays").join(id).join("new");
    let _ = fs::create_dir_all(&dir);
    let body = json!({
        "property": id,
        "tier": tier.name(),
        "seed": seed,
        "origin": f.origin,
        "choices": f.choices,
        "case": f.case.get("case").cloned().unwrap_or(Value::Null),
        "shown": f.case.get("shown").cloned().unwrap_or(Value::Null),
        "violations": f.violations,
    });
    let h = hash_value(&body.get("case").cloned().unwrap_or(Value::Null));
    let p = dir.join(format!("{h:016x}.json"));
    let _ = fs::write(&p, serde_json::to_string_pretty(&body).unwrap_or_default());
    p
}

pub struct RunOutcome {
    pub exit: i32,
}

/// Replay one file in strict mode (no known-finding suppression).
pub fn replay_file(e: &Entry, path: &Path) -> Result<Vec<Violation>, String> {
    let s = fs::read_to_string(path).map_err(|x| x.to_string())?;
    let v: Value = serde_json::from_str(&s).map_err(|x| x.to_string())?;
    let case = v.get("case").cloned().ok_or("replay file without case")?;
    let mut ctx = Ctx::default();
    match crate::adapter::guarded(|| (e.replay)(&case, &mut ctx)) {
        Ok(r) => r,
        Err(p) => Err(format!("harness panic during replay: {}", p.message)),
    }
}

fn list_json(dir: &Path) -> Vec<PathBuf> {
    let mut v: Vec<PathBuf> = fs::read_dir(dir)
        .map(|rd| {
            rd.filter_map(|e| e.ok())
                .map(|e| e.path())
                .filter(|p| p.extension().map(|x| x == "json").unwrap_or(false))
                .collect()
        })
        .unwrap_or_default();
    v.sort();
    v
}

pub fn run_check(e: &Entry, tier: Tier, seed: u64) -> RunOutcome {
    let t0 = Instant::now();
    let findings = load_findings();
    let mut total = Stats::default();
    let mut violations_reported = 0u64;
    let mut exit = 0;
    let mut known_lines: BTreeSet<String> = BTreeSet::new();

    // 1. replay tier: pinned known findings and committed regression inputs
    for f in findings
        .findings
        .iter()
        .filter(|f| f.property == e.id && f.status == "open")
    {
        if let Some(rp) = &f.pinned_replay {
            let path = verif_root().join(rp);
            match replay_file(e, &path) {
                Ok(vs) if !vs.is_empty() => {
                    known_lines.insert(format!("KNOWN-FINDING: property={} {}", e.id, f.what));
                    // anything in the pinned replay that the signature does not cover is new
                    for v in vs {
                        if match_finding(&findings, e.id, &v).is_none() {
                            println!(
                                "VIOLATION property={} replay={}",
                                e.id,
                                path.display()
                            );
                            println!("  {}", v.msg);
                            violations_reported += 1;
                            exit = 1;
                        }
                    }
                }
                Ok(_) => {
                    println!(
                        "note: pinned input of known finding {} no longer fails",
                        f.id
                    );
                }
                Err(err) => {
                    eprintln!("cannot replay {}: {err}", path.display());
                    if exit == 0 { exit = 2; }
                }
            }
        } else {
            known_lines.insert(format!("KNOWN-FINDING: property={} {}", e.id, f.what));
        }
    }
    let reg_dir = verif_root().join("replays").join(e.id);
    let mut n_regress = 0;
    for p in list_json(&reg_dir) {
        n_regress += 1;
        match replay_file(e, &p) {
            Ok(vs) => {
                for v in vs {
                    match match_finding(&findings, e.id, &v) {
                        Some(f) => {
                            *total.known_hits.entry(f.id.clone()).or_insert(0) += 1;
                        }
                        None => {
                            println!("VIOLATION property={} replay={}", e.id, p.display());
                            println!("  {}", v.msg);
                            violations_reported += 1;
                            exit = 1;
                        }
                    }
                }
            }
            Err(err) => {
                eprintln!("cannot replay {}: {err}", p.display());
                if exit == 0 { exit = 2; }
            }
        }
    }
    total.facts.insert("regression_replays".into(), n_regress);

    // 2. generated search, sharded over worker processes
    let cases = if tier == Tier::Thorough {
        e.thorough_cases
    } else {
        e.quick_cases
    };
    let scale: f64 = std::env::var("VERIF_SCALE")
        .ok()
        .and_then(|s| s.parse().ok())
        .unwrap_or(1.0);
    let cases = ((cases as f64) * scale) as u32;
    let ncpu = std::thread::available_parallelism()
        .map(|n| n.get())
        .unwrap_or(4);
    // at most `ncpu` workers at a time; a worker gets at most VERIF_SHARD_CASES cases (default 20 000),
    // which bounds what the analyzer's never-freed graphs can pile up in one process
    let cap: usize = std::env::var("VERIF_SHARD_CASES").ok().and_then(|s| s.parse().ok()).unwrap_or(20_000);
    let width = ncpu.min(e.max_shards).max(1);
    let shards = width.max((cases as usize).div_ceil(cap.max(1))).min((cases as usize).max(1));
    let per = cases / shards as u32;
    let work = cache_dir().join("work").join(e.id);
    let _ = fs::remove_dir_all(&work);
    let _ = fs::create_dir_all(&work);
    let exe = std::env::current_exe().expect("current_exe");
    let spawn_shard = |s: usize| -> std::io::Result<(usize, std::process::Child, PathBuf, PathBuf)> {
        let n = if s == 0 { cases - per * (shards as u32 - 1) } else { per };
        let out = work.join(format!("shard-{s}.json"));
        let cur = work.join(format!("current-{s}.json"));
        Command::new(&exe)
            .arg("shard")
            .arg(e.id)
            .arg(tier.name())
            .arg(seed.to_string())
            .arg(s.to_string())
            .arg(n.to_string())
            .arg(&out)
            .arg(&cur)
            .arg(if s == 0 { "enumerate" } else { "-" })
            .stdout(Stdio::null())
            .stderr(
                fs::File::create(work.join(format!("shard-{s}.stderr")))
                    .map(Stdio::from)
                    .unwrap_or_else(|_| Stdio::null()),
            )
            .spawn()
            .map(|c| (s, c, out, cur))
    };
    let mut pending: std::collections::VecDeque<usize> = (0..shards).collect();
    let mut running: Vec<(usize, std::process::Child, PathBuf, PathBuf)> = vec![];
    let mut children: Vec<(usize, std::io::Result<std::process::ExitStatus>, PathBuf, PathBuf)> = vec![];
    if e.release_too {
        let rel = exe
            .parent()
            .and_then(|p| p.parent())
            .map(|p| p.join("release").join("rvverif"));
        match rel {
            Some(rel) if rel.exists() => {
                let s = 9_999_999usize; // never collides with a regular shard index
                let out = work.join(format!("shard-{s}.json"));
                let cur = work.join(format!("current-{s}.json"));
                let child = Command::new(&rel)
                    .arg("shard")
                    .arg(e.id)
                    .arg(tier.name())
                    .arg(seed.to_string())
                    .arg(s.to_string())
                    .arg(per.max(1).to_string())
                    .arg(&out)
                    .arg(&cur)
                    .arg("enumerate")
                    .stdout(Stdio::null())
                    .stderr(Stdio::null())
                    .spawn();
                match child {
                    Ok(c) => running.push((s, c, out, cur)),
                    Err(err) => {
                        eprintln!("cannot spawn release shard: {err}");
                        if exit == 0 { exit = 2; }
                    }
                }
            }
            _ => {
                eprintln!("release-profile harness binary missing (run ./check setup)");
                if exit == 0 { exit = 2; }
            }
        }
    }
    // extra (parent-side) part runs while shards work
    let mut extra_fails = vec![];
    if let Some(x) = e.extra {
        let args = ExtraArgs {
            tier,
            seed,
            work: work.clone(),
        };
        extra_fails = x(&args, &mut total);
    }
    for (case, vs) in extra_fails {
        let mut unknown = vec![];
        for v in vs {
            match match_finding(&findings, e.id, &v) {
                Some(f) => *total.known_hits.entry(f.id.clone()).or_insert(0) += 1,
                None => unknown.push(v),
            }
        }
        if !unknown.is_empty() {
            let f = Failure {
                choices: vec![],
                case,
                violations: unknown,
                origin: "extra".into(),
            };
            let p = write_replay(e.id, tier, seed, &f);
            println!("VIOLATION property={} replay={}", e.id, p.display());
            for v in &f.violations {
                println!("  {}", v.msg);
            }
            violations_reported += 1;
            exit = 1;
        }
    }
    // drive the queue of workers
    while !pending.is_empty() || !running.is_empty() {
        while running.len() < width + usize::from(e.release_too) && !pending.is_empty() {
            let s = pending.pop_front().unwrap_or(0);
            match spawn_shard(s) {
                Ok(x) => running.push(x),
                Err(err) => {
                    eprintln!("cannot spawn shard: {err}");
                    if exit == 0 { exit = 2; }
                }
            }
        }
        let mut k = 0;
        let mut progressed = false;
        while k < running.len() {
            match running[k].1.try_wait() {
                Ok(Some(st)) => {
                    let (s, _, out, cur) = running.remove(k);
                    children.push((s, Ok(st), out, cur));
                    progressed = true;
                }
                Ok(None) => k += 1,
                Err(err) => {
                    let (s, _, out, cur) = running.remove(k);
                    children.push((s, Err(err), out, cur));
                    progressed = true;
                }
            }
        }
        if !progressed {
            std::thread::sleep(std::time::Duration::from_millis(20));
        }
    }
    children.sort_by_key(|c| c.0);
    let mut deaths = 0;
    for (s, status, out, cur) in children {
        let ok = status.as_ref().map(|st| st.success()).unwrap_or(false);
        match fs::read_to_string(&out)
            .ok()
            .and_then(|t| serde_json::from_str::<Stats>(&t).ok())
        {
            Some(st) if ok => {
                for f in st.failures.clone() {
                    let p = write_replay(e.id, tier, seed, &f);
                    println!("VIOLATION property={} replay={}", e.id, p.display());
                    for v in &f.violations {
                        println!("  sig={:?}", v.sig);
                        println!("  {}", v.msg);
                    }
                    violations_reported += 1;
                    exit = 1;
                }
                if let Some(err) = &st.infra_error {
                    eprintln!("shard {s}: {err}");
                    if exit == 0 { exit = 2; }
                }
                total.merge(st);
            }
            _ => {
                // the worker died (signal / abort / stack overflow): find the culprit
                let culprit = fs::read_to_string(&cur).unwrap_or_default();
                let msg = format!(
                    "shard {s} of {} died ({:?}); case in progress saved",
                    e.id, status
                );
                eprintln!("{msg}");
                deaths += 1;
                if deaths > 3 {
                    // three deaths were already examined in this run; the verdict is settled
                    eprintln!("further worker deaths are not examined one by one");
                    continue;
                }
                let crash = handle_worker_death(e, tier, seed, &culprit, &work, deaths == 1);
                match crash {
                    Some((p, v)) => {
                        if match_finding(&findings, e.id, &v).is_some() {
                            *total.known_hits.entry("worker-death".into()).or_insert(0) += 1;
                        } else {
                            println!("VIOLATION property={} replay={}", e.id, p.display());
                            println!("  {}", v.msg);
                            violations_reported += 1;
                            exit = 1;
                        }
                    }
                    None => {
                        eprintln!("worker death not reproducible: inconclusive");
                        if exit == 0 { exit = 2; }
                    }
                }
            }
        }
    }
    for l in &known_lines {
        println!("{l}");
    }

    // 3. evidence
    let wall = t0.elapsed().as_secs_f64();
    let ev = json!({
        "property_id": e.id,
        "tier": tier.name(),
        "seed": seed,
        "level": "exploration",
        "coverage": {
            "evaluations": total.evaluations + total.enumerated,
            "generated": total.evaluations,
            "enumerated": total.enumerated,
            "distinct_nontrivial": total.nontrivial_hashes.len(),
            "rule": e.rule,
            "samples": total.samples,
            "classes": total.labels,
            "checked_facts": total.facts,
            "skipped": total.skips,
            "maxima": total.maxima,
            "known_finding_hits": total.known_hits,
            "shards": shards,
        },
        "assumptions": e.assumptions,
        "wall_s": wall,
        "violations": violations_reported,
    });
    let evdir = verif_root().join("evidence");
    let _ = fs::create_dir_all(&evdir);
    let _ = fs::write(
        evdir.join(format!("{}.json", e.id)),
        serde_json::to_string_pretty(&ev).unwrap_or_default(),
    );
    println!(
        "{} {}: {} generated + {} enumerated cases, {} distinct non-trivial, {} known-finding hits, {} violations, {:.1}s",
        e.id,
        tier.name(),
        total.evaluations,
        total.enumerated,
        total.nontrivial_hashes.len(),
        total.known_hits.values().sum::<u64>(),
        violations_reported,
        wall
    );
    if exit == 0 && total.evaluations + total.enumerated == 0 {
        eprintln!("no cases were evaluated");
        exit = 2;
    }
    if exit == 0 && total.nontrivial_hashes.len() < 2 {
        eprintln!("fewer than 2 non-trivial cases: generator self-test failed");
        exit = 2;
    }
    RunOutcome { exit }
}

/// A worker died. Re-run the culprit alone in a fresh process; if it dies
/// again it is a reproducible crash (stack overflow / abort / OOM kill).
fn handle_worker_death(
    e: &Entry,
    tier: Tier,
    seed: u64,
    culprit: &str,
    work: &Path,
    shrink: bool,
) -> Option<(PathBuf, Violation)> {
    let choices: Vec<u32> = serde_json::from_str(culprit.trim()).ok()?;
    let exe = std::env::current_exe().ok()?;
    let t_start = Instant::now();
    let dies = |c: &[u32]| -> Option<String> {
        let f = work.join("probe.json");
        fs::write(&f, serde_json::to_string(c).ok()?).ok()?;
        let st = Command::new(&exe)
            .arg("one")
            .arg(e.id)
            .arg(tier.name())
            .arg(&f)
            .stdout(Stdio::null())
            .stderr(Stdio::null())
            .status()
            .ok()?;
        if st.success() || st.code() == Some(1) || st.code() == Some(3) {
            None
        } else {
            Some(format!("{st:?}"))
        }
    };
    let how = dies(&choices)?;
    // crude shrinking by truncation and zeroing, each probe in a fresh process
    let mut best = choices.clone();
    let mut budget = if shrink { 60 } else { 0 };
    let mut len = best.len() / 2;
    // every probe of a hang costs the full CPU limit: bound shrinking by time as well
    while len >= 1 && budget > 0 && t_start.elapsed().as_secs() < 240 {
        budget -= 1;
        if best.len() > len {
            let cand: Vec<u32> = best[..best.len() - len].to_vec();
            if dies(&cand).is_some() {
                best = cand;
                continue;
            }
        }
        len /= 2;
    }
    let f = Failure {
        choices: best.clone(),
        case: (e.gen_only)(&best, tier).unwrap_or_else(|| json!({"case": Value::Null, "shown": {"choices_only": true}})),
        violations: vec![Violation::new(format!(
            "analyzer process died on this case ({how}); replay with `rvverif one {} {} <choices.json>`",
            e.id,
            tier.name()
        ))
        .with("kind", "process-death")],
        origin: "worker death".into(),
    };
    let p = write_replay(e.id, tier, seed, &f);
    Some((p, f.violations[0].clone()))
}
