//! The only module that names analyzer types. Converts everything into
//! harness-owned plain data.

use std::cell::RefCell;
use std::collections::{BTreeMap, HashMap};
use std::panic::{catch_unwind, AssertUnwindSafe};
use std::rc::Rc;

use riscv_analysis::analysis::{AvailableValue, AvailableValuePass, LivenessPass, MemoryLocation};
use riscv_analysis::cfg::{Cfg, CfgNode, CfgWrapper, MathOp, RegisterSet};
use riscv_analysis::gen::EcallTerminationPass;
use riscv_analysis::parser::{
    InstructionProperties, Lexer, ParseError, ParserNode, RVParser, Register, TokenType,
};
use riscv_analysis::passes::{
    DiagnosticItem, DiagnosticLocation, DiagnosticManager, DiagnosticMessage, GenerationPass,
    Manager, SeverityLevel,
};
use riscv_analysis::reader::{FileReader, FileReaderError};
use serde::{Deserialize, Serialize};
use uuid::Uuid;

// ---------------------------------------------------------------------------
// panic capture

thread_local! {
    static LAST_PANIC: RefCell<Option<String>> = const { RefCell::new(None) };
}

pub fn install_panic_hook() {
    std::panic::set_hook(Box::new(|info| {
        let loc = info
            .location()
            .map(|l| format!("{}:{}", l.file(), l.line()))
            .unwrap_or_default();
        let msg = if let Some(s) = info.payload().downcast_ref::<&str>() {
            (*s).to_string()
        } else if let Some(s) = info.payload().downcast_ref::<String>() {
            s.clone()
        } else {
            "<non-string panic>".to_string()
        };
        LAST_PANIC.with(|p| *p.borrow_mut() = Some(format!("{msg} @ {loc}")));
    }));
}

#[derive(Clone, Debug, Serialize, Deserialize)]
pub struct Panic {
    pub message: String,
}

impl Panic {
    /// `file:line` part only (stable signature).
    pub fn location(&self) -> String {
        self.message
            .rsplit(" @ ")
            .next()
            .unwrap_or_default()
            .to_string()
    }
    pub fn is_sweep_limit(&self) -> bool {
        self.message.contains("VERIF_SWEEP_LIMIT")
    }
}

pub fn guarded<T>(f: impl FnOnce() -> T) -> Result<T, Panic> {
    LAST_PANIC.with(|p| *p.borrow_mut() = None);
    match catch_unwind(AssertUnwindSafe(f)) {
        Ok(v) => Ok(v),
        Err(_) => Err(Panic {
            message: LAST_PANIC
                .with(|p| p.borrow_mut().take())
                .unwrap_or_else(|| "<panic without message>".to_string()),
        }),
    }
}

// ---------------------------------------------------------------------------
// hooks

#[derive(Clone, Copy, Debug, Default, Serialize, Deserialize)]
pub struct Work {
    pub sweeps_available: u64,
    pub sweeps_liveness: u64,
    pub sweeps_dead_code: u64,
    pub node_visits: u64,
}

pub fn hooks_reset() {
    riscv_analysis::verif_hooks::reset();
}
pub fn hooks_take() -> Work {
    let c = riscv_analysis::verif_hooks::take();
    Work {
        sweeps_available: c.sweeps_available,
        sweeps_liveness: c.sweeps_liveness,
        sweeps_dead_code: c.sweeps_dead_code,
        node_visits: c.node_visits,
    }
}
pub fn hooks_set_sweep_limit(l: Option<u64>) {
    riscv_analysis::verif_hooks::set_sweep_limit(l);
}

// ---------------------------------------------------------------------------
// in-memory reader

#[derive(Clone, Debug, PartialEq, Eq, Serialize, Deserialize)]
pub enum Fault {
    NotFound,
    Io,
    AlreadyRead,
}

#[derive(Clone, Debug)]
pub struct MemReader {
    pub files: BTreeMap<String, String>,
    pub faults: BTreeMap<String, Fault>,
    imported: Vec<(Uuid, String)>,
    base: Option<Uuid>,
    pub imports: usize,
    pub import_budget: usize,
    pub budget_exceeded: bool,
}

impl MemReader {
    pub fn new(files: &[(String, String)]) -> Self {
        MemReader {
            files: files.iter().cloned().collect(),
            faults: BTreeMap::new(),
            imported: Vec::new(),
            base: None,
            imports: 0,
            import_budget: 16 + 8 * files.len(),
            budget_exceeded: false,
        }
    }
    pub fn with_faults(mut self, faults: &[(String, Fault)]) -> Self {
        self.faults = faults.iter().cloned().collect();
        self
    }
    pub fn name_of(&self, id: Uuid) -> Option<String> {
        self.imported
            .iter()
            .find(|(u, _)| *u == id)
            .map(|(_, n)| n.clone())
    }
    /// The chain of files currently being included is not visible to a
    /// reader, so "already read" is decided like a real file-system reader
    /// would: by path.
    fn already(&self, path: &str) -> bool {
        self.imported.iter().any(|(_, n)| n == path)
    }
}

impl FileReader for MemReader {
    fn import_file(
        &mut self,
        path: &str,
        _parent: Option<Uuid>,
    ) -> Result<(Uuid, String), FileReaderError> {
        // like a file system: the path is relative to the directory of the including file, and
        // "./x", "sub/../x" and "x" name the same file
        let resolved = match _parent.and_then(|p| self.name_of(p)) {
            Some(parent) => crate::paths::resolve(&parent, path),
            None => crate::paths::normalise(path),
        };
        let path = resolved.as_str();
        self.imports += 1;
        if self.imports > self.import_budget {
            self.budget_exceeded = true;
            return Err(FileReaderError::FileAlreadyRead(path.to_string()));
        }
        match self.faults.get(path) {
            Some(Fault::NotFound) => return Err(FileReaderError::InvalidPath),
            Some(Fault::Io) => return Err(FileReaderError::IOErr("injected".to_string())),
            Some(Fault::AlreadyRead) => {
                return Err(FileReaderError::FileAlreadyRead(path.to_string()))
            }
            None => {}
        }
        if self.already(path) {
            return Err(FileReaderError::FileAlreadyRead(path.to_string()));
        }
        match self.files.get(path) {
            None => Err(FileReaderError::InvalidPath),
            Some(text) => {
                let id = Uuid::new_v4();
                self.imported.push((id, path.to_string()));
                self.base.get_or_insert(id);
                Ok((id, text.clone()))
            }
        }
    }
    fn get_text(&self, uuid: Uuid) -> Option<String> {
        self.name_of(uuid).and_then(|n| self.files.get(&n).cloned())
    }
    fn get_filename(&self, uuid: Uuid) -> Option<String> {
        self.name_of(uuid)
    }
    fn get_base_file(&self) -> Option<Uuid> {
        self.base
    }
}

// ---------------------------------------------------------------------------
// plain views

#[derive(Clone, Debug, PartialEq, Eq, PartialOrd, Ord, Serialize, Deserialize)]
pub struct Pos {
    pub line: usize,
    pub col: usize,
    pub raw: usize,
}

#[derive(Clone, Debug, PartialEq, Eq, PartialOrd, Ord, Serialize, Deserialize)]
pub struct Rng {
    pub start: Pos,
    pub end: Pos,
}

fn rng(r: &riscv_analysis::parser::Range) -> Rng {
    Rng {
        start: Pos {
            line: r.start().zero_idx_line(),
            col: r.start().zero_idx_column(),
            raw: r.start().raw_index(),
        },
        end: Pos {
            line: r.end().zero_idx_line(),
            col: r.end().zero_idx_column(),
            raw: r.end().raw_index(),
        },
    }
}

#[derive(Clone, Debug, PartialEq, Eq, PartialOrd, Ord, Serialize, Deserialize)]
pub struct Diag {
    /// stable kind: the lint's error code, or `parse:<variant>` / `cfg:<variant>`
    pub code: String,
    pub title: String,
    pub level: String,
    /// file name as known to the reader ("" when the uuid is unknown / nil)
    pub file: String,
    pub range: Rng,
    pub description: String,
    pub related: Vec<(String, Rng, String)>,
}

fn level_str(l: &SeverityLevel) -> &'static str {
    match l {
        SeverityLevel::Error => "Error",
        SeverityLevel::Warning => "Warning",
        SeverityLevel::Information => "Info",
        SeverityLevel::Hint => "Hint",
    }
}

fn parse_error_code(e: &ParseError) -> &'static str {
    match e {
        ParseError::Expected(..) => "parse:expected",
        ParseError::Unsupported(_) => "parse:unsupported",
        ParseError::UnexpectedToken(_) => "parse:unexpected-token",
        ParseError::UnexpectedError(_) => "parse:unexpected-error",
        ParseError::UnknownDirective(_) => "parse:unknown-directive",
        ParseError::CyclicDependency(_) => "parse:cyclic-dependency",
        ParseError::FileNotFound(_) => "parse:file-not-found",
        ParseError::IOError(..) => "parse:io-error",
        ParseError::InvalidString(..) => "parse:invalid-string",
    }
}

fn cfg_error_code(e: &riscv_analysis::passes::CfgError) -> &'static str {
    use riscv_analysis::passes::CfgError as E;
    match e {
        E::LabelsNotDefined(..) => "cfg:labels-not-defined",
        E::DuplicateLabel(_) => "cfg:duplicate-label",
        E::MultipleLabelsForReturn(..) => "cfg:multiple-labels-for-return",
        E::NoLabelForReturn(_) => "cfg:no-label-for-return",
        E::LabelWithoutInstruction(_) => "cfg:label-without-instruction",
        E::FunctionWithoutReturn(..) => "cfg:function-without-return",
        E::UnexpectedError => "cfg:unexpected-error",
        E::AssertionError => "cfg:assertion-error",
    }
}

fn diag_from_msg<T: DiagnosticMessage + DiagnosticLocation>(
    code: &str,
    x: &T,
    rd: &MemReader,
) -> Diag {
    Diag {
        code: code.to_string(),
        title: x.title(),
        level: level_str(&x.level()).to_string(),
        file: rd.name_of(x.file()).unwrap_or_default(),
        range: rng(&x.range()),
        description: x.description(),
        related: x
            .related()
            .unwrap_or_default()
            .into_iter()
            .map(|r| {
                (
                    rd.name_of(r.file).unwrap_or_default(),
                    rng(&r.range),
                    r.description,
                )
            })
            .collect(),
    }
}

fn diag_from_item(code: &str, x: &DiagnosticItem, rd: &MemReader) -> Diag {
    Diag {
        code: code.to_string(),
        title: x.title.clone(),
        level: level_str(&x.level).to_string(),
        file: rd.name_of(x.file).unwrap_or_default(),
        range: rng(&x.range),
        description: x.description.clone(),
        related: x
            .related
            .clone()
            .unwrap_or_default()
            .into_iter()
            .map(|r| {
                (
                    rd.name_of(r.file).unwrap_or_default(),
                    rng(&r.range),
                    r.description,
                )
            })
            .collect(),
    }
}

// ---------------------------------------------------------------------------
// lexer view

#[derive(Clone, Debug, PartialEq, Eq, Serialize, Deserialize)]
pub struct Tok {
    pub kind: String,
    pub text: String,
    pub range: Rng,
    pub is_err: bool,
}

pub fn lex(text: &str) -> Result<Vec<Tok>, Panic> {
    guarded(|| {
        let mut out = Vec::new();
        let lexer = Lexer::new(text, Uuid::nil());
        for t in lexer {
            match t {
                Ok(t) => {
                    let kind = match t.token_type() {
                        TokenType::LParen => "lparen",
                        TokenType::RParen => "rparen",
                        TokenType::Newline => "newline",
                        TokenType::Label(_) => "label",
                        TokenType::Symbol(_) => "symbol",
                        TokenType::Directive(_) => "directive",
                        TokenType::String(_) => "string",
                        TokenType::Char(_) => "char",
                        TokenType::Comment(_) => "comment",
                    };
                    out.push(Tok {
                        kind: kind.to_string(),
                        text: t.raw_text(),
                        range: rng(&t.range()),
                        is_err: false,
                    });
                }
                Err(e) => {
                    let (text, range) = match &e {
                        riscv_analysis::parser::LexError::InvalidString(t, _)
                        | riscv_analysis::parser::LexError::UnexpectedToken(t)
                        | riscv_analysis::parser::LexError::Expected(_, t) => {
                            (t.raw_text(), rng(&t.range()))
                        }
                        _ => (String::new(), rng(&riscv_analysis::parser::Range::default())),
                    };
                    out.push(Tok {
                        kind: "error".to_string(),
                        text,
                        range,
                        is_err: true,
                    });
                }
            }
            if out.len() > 4_000_000 {
                break;
            }
        }
        out
    })
}

// ---------------------------------------------------------------------------
// parse view

#[derive(Clone, Debug, PartialEq, Eq, Serialize, Deserialize)]
pub struct PNode {
    /// variant name of the parser node
    pub kind: String,
    /// `Display` of the node (mnemonic and operands after decoding)
    pub shown: String,
    pub file: String,
    pub range: Rng,
    pub raw_text: String,
    pub detail: Option<Decoded>,
    /// for directives: (kind, numeric values, string payload)
    pub dir: Option<(String, Vec<i64>, Option<String>)>,
}

/// Decoded instruction fields, as the analyzer built them.
#[derive(Clone, Debug, PartialEq, Eq, Serialize, Deserialize)]
pub struct Decoded {
    pub class: String,
    pub inst: String,
    pub rd: Option<u8>,
    pub rs1: Option<u8>,
    pub rs2: Option<u8>,
    pub imm: Option<i64>,
    pub label: Option<String>,
    pub csr: Option<u32>,
    pub reads: u32,
    pub writes: u32,
    /// ranges of the operand tokens, where the node carries them
    pub rd_range: Option<Rng>,
    pub rs1_range: Option<Rng>,
    pub rs2_range: Option<Rng>,
    pub imm_range: Option<Rng>,
    pub label_range: Option<Rng>,
}

fn regnum(r: &Register) -> u8 {
    r.to_num()
}

fn set_mask(s: &RegisterSet) -> u32 {
    let mut m = 0u32;
    for r in s {
        m |= 1 << r.to_num();
    }
    m
}

fn decode(n: &ParserNode) -> Option<Decoded> {
    let mut d = Decoded {
        class: String::new(),
        inst: n.inst().to_string(),
        rd: None,
        rs1: None,
        rs2: None,
        imm: None,
        label: None,
        csr: None,
        reads: 0,
        writes: 0,
        rd_range: None,
        rs1_range: None,
        rs2_range: None,
        imm_range: None,
        label_range: None,
    };
    macro_rules! reg {
        ($f:ident, $fr:ident, $x:expr) => {{
            d.$f = Some(regnum($x.get()));
            d.$fr = Some(rng(&$x.range()));
        }};
    }
    match n {
        ParserNode::Arith(x) => {
            d.class = "arith".into();
            reg!(rd, rd_range, x.rd);
            reg!(rs1, rs1_range, x.rs1);
            reg!(rs2, rs2_range, x.rs2);
        }
        ParserNode::IArith(x) => {
            d.class = "iarith".into();
            reg!(rd, rd_range, x.rd);
            reg!(rs1, rs1_range, x.rs1);
            d.imm = Some(x.imm.get().value() as i64);
            d.imm_range = Some(rng(&x.imm.range()));
        }
        ParserNode::JumpLink(x) => {
            d.class = "jumplink".into();
            reg!(rd, rd_range, x.rd);
            d.label = Some(x.name.get().to_string());
            d.label_range = Some(rng(&x.name.range()));
        }
        ParserNode::JumpLinkR(x) => {
            d.class = "jumplinkr".into();
            reg!(rd, rd_range, x.rd);
            reg!(rs1, rs1_range, x.rs1);
            d.imm = Some(x.imm.get().value() as i64);
            d.imm_range = Some(rng(&x.imm.range()));
        }
        ParserNode::Basic(_) => d.class = "basic".into(),
        ParserNode::Branch(x) => {
            d.class = "branch".into();
            reg!(rs1, rs1_range, x.rs1);
            reg!(rs2, rs2_range, x.rs2);
            d.label = Some(x.name.get().to_string());
            d.label_range = Some(rng(&x.name.range()));
        }
        ParserNode::Store(x) => {
            d.class = "store".into();
            reg!(rs1, rs1_range, x.rs1);
            reg!(rs2, rs2_range, x.rs2);
            d.imm = Some(x.imm.get().value() as i64);
            d.imm_range = Some(rng(&x.imm.range()));
        }
        ParserNode::Load(x) => {
            d.class = "load".into();
            reg!(rd, rd_range, x.rd);
            reg!(rs1, rs1_range, x.rs1);
            d.imm = Some(x.imm.get().value() as i64);
            d.imm_range = Some(rng(&x.imm.range()));
        }
        ParserNode::LoadAddr(x) => {
            d.class = "loadaddr".into();
            reg!(rd, rd_range, x.rd);
            d.label = Some(x.name.get().to_string());
            d.label_range = Some(rng(&x.name.range()));
        }
        ParserNode::Csr(x) => {
            d.class = "csr".into();
            reg!(rd, rd_range, x.rd);
            reg!(rs1, rs1_range, x.rs1);
            d.csr = Some(x.csr.get().value());
        }
        ParserNode::CsrI(x) => {
            d.class = "csri".into();
            reg!(rd, rd_range, x.rd);
            d.imm = Some(x.imm.get().value() as i64);
            d.imm_range = Some(rng(&x.imm.range()));
            d.csr = Some(x.csr.get().value());
        }
        _ => return None,
    }
    for r in n.reads_from() {
        d.reads |= 1 << r.get().to_num();
    }
    if let Some(w) = n.writes_to() {
        d.writes |= 1 << w.get().to_num();
    }
    Some(d)
}

fn node_kind(n: &ParserNode) -> &'static str {
    match n {
        ParserNode::ProgramEntry(_) => "ProgramEntry",
        ParserNode::FuncEntry(_) => "FuncEntry",
        ParserNode::Arith(_) => "Arith",
        ParserNode::IArith(_) => "IArith",
        ParserNode::Label(_) => "Label",
        ParserNode::JumpLink(_) => "JumpLink",
        ParserNode::JumpLinkR(_) => "JumpLinkR",
        ParserNode::Basic(_) => "Basic",
        ParserNode::Directive(_) => "Directive",
        ParserNode::Branch(_) => "Branch",
        ParserNode::Store(_) => "Store",
        ParserNode::Load(_) => "Load",
        ParserNode::LoadAddr(_) => "LoadAddr",
        ParserNode::Csr(_) => "Csr",
        ParserNode::CsrI(_) => "CsrI",
    }
}

fn pnode(n: &ParserNode, rd: &MemReader) -> PNode {
    PNode {
        kind: node_kind(n).to_string(),
        shown: n.to_string(),
        file: rd.name_of(n.file()).unwrap_or_default(),
        range: rng(&n.range()),
        raw_text: n.raw_text(),
        detail: decode(n),
        dir: match n {
            ParserNode::Directive(d) => {
                use riscv_analysis::parser::DirectiveType as D;
                Some(match &d.dir {
                    D::Include(p) => ("include".to_string(), vec![], Some(p.get().clone())),
                    D::Align(i) => ("align".to_string(), vec![i.get().value() as i64], None),
                    D::Ascii { text, null_term } => (
                        if *null_term { "asciz" } else { "ascii" }.to_string(),
                        vec![],
                        Some(text.get().clone()),
                    ),
                    D::DataSection => ("data".to_string(), vec![], None),
                    D::TextSection => ("text".to_string(), vec![], None),
                    D::Data(t, vals) => (
                        t.to_string(),
                        vals.iter().map(|v| v.get().value() as i64).collect(),
                        None,
                    ),
                    D::Space(i) => ("space".to_string(), vec![i.get().value() as i64], None),
                })
            }
            _ => None,
        },
    }
}

#[derive(Clone, Debug, Default, Serialize, Deserialize)]
pub struct Parsed {
    pub nodes: Vec<PNode>,
    pub errors: Vec<Diag>,
    pub budget_exceeded: bool,
}

pub type Files = Vec<(String, String)>;

pub fn single(text: &str) -> Files {
    vec![("main.s".to_string(), text.to_string())]
}

pub fn parse_with(files: &Files, faults: &[(String, Fault)]) -> Result<Parsed, Panic> {
    guarded(|| {
        let reader = MemReader::new(files).with_faults(faults);
        let mut p = RVParser::new(reader);
        let (nodes, errs) = p.parse_from_file(&files[0].0, false);
        Parsed {
            nodes: nodes.iter().map(|n| pnode(n, &p.reader)).collect(),
            errors: errs
                .iter()
                .map(|e| diag_from_msg(parse_error_code(e), e, &p.reader))
                .collect(),
            budget_exceeded: p.reader.budget_exceeded,
        }
    })
}

pub fn parse(files: &Files) -> Result<Parsed, Panic> {
    parse_with(files, &[])
}

// ---------------------------------------------------------------------------
// full lint (the library entry point and the staged pipeline)

#[derive(Clone, Debug, Default, Serialize, Deserialize)]
pub struct LintOut {
    pub diags: Vec<Diag>,
    pub n_nodes: usize,
    pub n_parse_errors: usize,
    pub cfg_error: Option<String>,
    pub budget_exceeded: bool,
}

/// `RVParser::run` — exactly what the editor integration calls.
pub fn run_entry(files: &Files, faults: &[(String, Fault)]) -> Result<Vec<Diag>, Panic> {
    hooks_reset();
    guarded(|| {
        let reader = MemReader::new(files).with_faults(faults);
        let mut p = RVParser::new(reader);
        let items = p.run(&files[0].0);
        items
            .iter()
            .map(|d| diag_from_item("", d, &p.reader))
            .collect()
    })
}

/// The same pipeline, staged by hand so that every diagnostic carries its code.
/// Items are returned in the order the library sorts them.
pub fn lint_with(files: &Files, faults: &[(String, Fault)]) -> Result<LintOut, Panic> {
    hooks_reset();
    guarded(|| {
        let reader = MemReader::new(files).with_faults(faults);
        let mut p = RVParser::new(reader);
        let (nodes, errs) = p.parse_from_file(&files[0].0, false);
        let mut out = LintOut {
            n_nodes: nodes.len(),
            n_parse_errors: errs.len(),
            budget_exceeded: p.reader.budget_exceeded,
            ..Default::default()
        };
        let mut items: Vec<(DiagnosticItem, String)> = errs
            .iter()
            .map(|e| (DiagnosticItem::from(e.clone()), parse_error_code(e).to_string()))
            .collect();
        // the two halves of Manager::run, so that the graph can be taken apart afterwards (its
        // Rc cycles would otherwise keep every analysed program alive for the life of the worker)
        match Manager::gen_full_cfg(nodes) {
            Ok(cfg) => {
                let mut dm = DiagnosticManager::new();
                Manager::run_diagnostics(&cfg, &mut dm);
                for d in dm.iter() {
                    items.push((
                        DiagnosticItem::from_displayable(d.as_ref()),
                        d.get_error_code().to_string(),
                    ));
                }
                drop(dm);
                dispose(&cfg);
            }
            Err(e) => {
                out.cfg_error = Some(cfg_error_code(&e).to_string());
                let code = cfg_error_code(&e).to_string();
                items.push((DiagnosticItem::from(*e), code));
            }
        }
        // the library's own ordering / merging of identical items, with the codes re-attached
        let mut shown: Vec<DiagnosticItem> = items.iter().map(|(d, _)| d.clone()).collect();
        DiagnosticItem::sort_for_display(&mut shown, &p.reader);
        out.diags = shown
            .iter()
            .map(|d| {
                let code = items
                    .iter()
                    .find(|(x, _)| {
                        x.file == d.file && x.range == d.range && x.title == d.title && x.description == d.description
                    })
                    .map(|(_, c)| c.clone())
                    .unwrap_or_default();
                diag_from_item(&code, d, &p.reader)
            })
            .collect();
        out
    })
}

pub fn lint(files: &Files) -> Result<LintOut, Panic> {
    lint_with(files, &[])
}

// ---------------------------------------------------------------------------
// CFG view

#[derive(Clone, Debug, PartialEq, Eq, PartialOrd, Ord, Hash, Serialize, Deserialize)]
pub enum Val {
    Const(i32),
    Addr(String),
    Mem(String, i32),
    RegS(u8, i32),
    OrigS(u8, i32),
    MemAtReg(u8, i32),
    MemAtOrig(u8, i32),
    Csr(u32),
    MemAtCsr(u32, i32),
}

#[derive(Clone, Debug, PartialEq, Eq, PartialOrd, Ord, Hash, Serialize, Deserialize)]
pub enum Loc {
    Stack(i32),
    Csr(u32),
    CsrOff(u32, i32),
}

fn val(v: &AvailableValue) -> Val {
    match v {
        AvailableValue::Constant(c) => Val::Const(*c),
        AvailableValue::Address(l) => Val::Addr(l.get().to_string()),
        AvailableValue::Memory(l, o) => Val::Mem(l.to_string(), *o),
        AvailableValue::RegisterWithScalar(r, o) => Val::RegS(r.to_num(), *o),
        AvailableValue::OriginalRegisterWithScalar(r, o) => Val::OrigS(r.to_num(), *o),
        AvailableValue::MemoryAtRegister(r, o) => Val::MemAtReg(r.to_num(), *o),
        AvailableValue::MemoryAtOriginalRegister(r, o) => Val::MemAtOrig(r.to_num(), *o),
        AvailableValue::ValueInCsr(c) => Val::Csr(c.value()),
        AvailableValue::MemoryAtCsr(c, o) => Val::MemAtCsr(c.value(), *o),
    }
}

fn loc(l: &MemoryLocation) -> Loc {
    match l {
        MemoryLocation::StackOffset(o) => Loc::Stack(*o),
        MemoryLocation::CsrRegister(c) => Loc::Csr(c.value()),
        MemoryLocation::CsrRegisterValueOffset(c, o) => Loc::CsrOff(c.value(), *o),
    }
}

#[derive(Clone, Debug, PartialEq, Eq, Serialize, Deserialize)]
pub struct NodeView {
    pub idx: usize,
    pub kind: String,
    pub shown: String,
    pub file: String,
    pub range: Rng,
    pub labels: Vec<String>,
    pub nexts: Vec<usize>,
    pub prevs: Vec<usize>,
    /// neighbours that are not nodes of the graph (must stay empty)
    pub foreign_neighbours: usize,
    pub reg_in: BTreeMap<u8, Val>,
    pub reg_out: BTreeMap<u8, Val>,
    pub mem_in: BTreeMap<Loc, Val>,
    pub mem_out: BTreeMap<Loc, Val>,
    pub live_in: u32,
    pub live_out: u32,
    pub u_def: u32,
    /// indices into `CfgView::functions`
    pub funcs: Vec<usize>,
    pub is_return: bool,
    pub is_ecall: bool,
    pub known_ecall: Option<i32>,
    pub is_func_entry: bool,
    pub is_program_entry: bool,
    pub in_text: bool,
    pub detail: Option<Decoded>,
}

#[derive(Clone, Debug, PartialEq, Eq, Serialize, Deserialize)]
pub struct FuncView {
    pub labels: Vec<String>,
    pub entry: usize,
    pub exit: usize,
    pub nodes: Vec<usize>,
    pub arguments: u32,
    pub returns: u32,
    pub defs: u32,
}

#[derive(Clone, Debug, PartialEq, Eq, Serialize, Deserialize)]
pub struct CfgView {
    pub nodes: Vec<NodeView>,
    pub functions: Vec<FuncView>,
    /// label -> function index
    pub function_labels: BTreeMap<String, usize>,
}

fn view(cfg: &Cfg, rd: &MemReader) -> CfgView {
    let mut index: HashMap<*const CfgNode, usize> = HashMap::new();
    for (i, n) in cfg.nodes().iter().enumerate() {
        index.insert(Rc::as_ptr(n), i);
    }
    // functions: dedupe by Rc identity
    let mut fidx: HashMap<*const riscv_analysis::cfg::Function, usize> = HashMap::new();
    let mut functions: Vec<FuncView> = Vec::new();
    let mut function_labels = BTreeMap::new();
    let fmap = cfg.functions();
    let mut labelled: Vec<(String, Rc<riscv_analysis::cfg::Function>)> = fmap
        .iter()
        .map(|(k, v)| (k.get().to_string(), Rc::clone(v)))
        .collect();
    labelled.sort_by(|a, b| a.0.cmp(&b.0));
    let lookup = |p: *const CfgNode| -> usize { index.get(&p).copied().unwrap_or(usize::MAX) };
    for (name, f) in &labelled {
        let p = Rc::as_ptr(f);
        let id = *fidx.entry(p).or_insert_with(|| {
            let mut labels: Vec<String> =
                f.labels().iter().map(|l| l.get().to_string()).collect();
            labels.sort();
            functions.push(FuncView {
                labels,
                entry: lookup(Rc::as_ptr(&f.entry())),
                exit: lookup(Rc::as_ptr(&f.exit())),
                nodes: f.nodes().iter().map(|n| lookup(Rc::as_ptr(n))).collect(),
                arguments: set_mask(&f.arguments()),
                returns: set_mask(&f.returns()),
                defs: set_mask(&f.defs()),
            });
            functions.len() - 1
        });
        function_labels.insert(name.clone(), id);
    }
    let mut nodes = Vec::new();
    for (i, n) in cfg.nodes().iter().enumerate() {
        let pn = n.node();
        let mut foreign = 0;
        let mut nexts: Vec<usize> = Vec::new();
        for x in n.nexts().iter() {
            match index.get(&Rc::as_ptr(x)) {
                Some(j) => nexts.push(*j),
                None => foreign += 1,
            }
        }
        let mut prevs: Vec<usize> = Vec::new();
        for x in n.prevs().iter() {
            match index.get(&Rc::as_ptr(x)) {
                Some(j) => prevs.push(*j),
                None => foreign += 1,
            }
        }
        nexts.sort_unstable();
        prevs.sort_unstable();
        let mut funcs: Vec<usize> = n
            .functions()
            .iter()
            .map(|f| fidx.get(&Rc::as_ptr(f)).copied().unwrap_or(usize::MAX))
            .collect();
        funcs.sort_unstable();
        let mut labels: Vec<String> = n.labels.iter().map(|l| l.get().to_string()).collect();
        labels.sort();
        nodes.push(NodeView {
            idx: i,
            kind: node_kind(&pn).to_string(),
            shown: pn.to_string(),
            file: rd.name_of(pn.file()).unwrap_or_default(),
            range: rng(&pn.range()),
            labels,
            nexts,
            prevs,
            foreign_neighbours: foreign,
            reg_in: n
                .reg_values_in()
                .iter()
                .map(|(r, v)| (r.to_num(), val(v)))
                .collect(),
            reg_out: n
                .reg_values_out()
                .iter()
                .map(|(r, v)| (r.to_num(), val(v)))
                .collect(),
            mem_in: n
                .memory_values_in()
                .iter()
                .map(|(l, v)| (loc(l), val(v)))
                .collect(),
            mem_out: n
                .memory_values_out()
                .iter()
                .map(|(l, v)| (loc(l), val(v)))
                .collect(),
            live_in: set_mask(&n.live_in()),
            live_out: set_mask(&n.live_out()),
            u_def: set_mask(&n.u_def()),
            funcs,
            is_return: n.is_return(),
            is_ecall: n.is_ecall(),
            known_ecall: n.known_ecall(),
            is_func_entry: n.is_function_entry(),
            is_program_entry: n.is_program_entry(),
            in_text: n.segment() == riscv_analysis::cfg::Segment::Text,
            detail: decode(&pn),
        });
    }
    CfgView {
        nodes,
        functions,
        function_labels,
    }
}

#[derive(Clone, Debug, PartialEq, Eq, Serialize, Deserialize)]
pub enum ExtraPass {
    Available,
    EcallTermination,
    Liveness,
}

#[derive(Clone, Debug, Serialize, Deserialize)]
pub struct Analysis {
    pub parse_errors: Vec<Diag>,
    /// None when CFG construction failed
    pub cfg: Option<CfgView>,
    pub cfg_error: Option<Diag>,
    /// lint diagnostics (codes set), in emission order
    pub lints: Vec<Diag>,
    pub work: Work,
    /// state after the extra pass sequence, when one was requested
    pub after_extra: Option<(CfgView, Vec<Diag>)>,
    pub yaml: Option<String>,
}

fn lints_of(cfg: &Cfg, rd: &MemReader) -> Vec<Diag> {
    let mut dm = DiagnosticManager::new();
    Manager::run_diagnostics(cfg, &mut dm);
    dm.iter()
        .map(|d| {
            let item = DiagnosticItem::from_displayable(d.as_ref());
            diag_from_item(d.get_error_code(), &item, rd)
        })
        .collect()
}

/// Break the `Rc` cycles of a finished graph so that it can be freed.
fn dispose(cfg: &Cfg) {
    for f in cfg.functions().values() {
        let _ = f.set_nodes(vec![]);
    }
    for n in cfg.nodes() {
        n.clear_nexts();
        n.clear_prevs();
    }
}

pub struct AnalyzeOpts {
    pub extra: Vec<ExtraPass>,
    pub want_yaml: bool,
    pub sweep_limit: Option<u64>,
}

impl Default for AnalyzeOpts {
    fn default() -> Self {
        AnalyzeOpts {
            extra: vec![],
            want_yaml: false,
            sweep_limit: Some(100_000),
        }
    }
}

pub fn analyze(files: &Files, opts: &AnalyzeOpts) -> Result<Analysis, Panic> {
    hooks_reset();
    hooks_set_sweep_limit(opts.sweep_limit);
    guarded(|| {
        let reader = MemReader::new(files);
        let mut p = RVParser::new(reader);
        let (nodes, errs) = p.parse_from_file(&files[0].0, false);
        let parse_errors = errs
            .iter()
            .map(|e| diag_from_msg(parse_error_code(e), e, &p.reader))
            .collect();
        hooks_reset();
        match Manager::gen_full_cfg(nodes) {
            Err(e) => Analysis {
                parse_errors,
                cfg: None,
                cfg_error: Some(diag_from_msg(cfg_error_code(&e), &*e, &p.reader)),
                lints: vec![],
                work: hooks_take(),
                after_extra: None,
                yaml: None,
            },
            Ok(mut cfg) => {
                let work = hooks_take();
                let v = view(&cfg, &p.reader);
                let lints = lints_of(&cfg, &p.reader);
                let yaml = if opts.want_yaml {
                    serde_yaml::to_string(&CfgWrapper::from(&cfg)).ok()
                } else {
                    None
                };
                let after_extra = if opts.extra.is_empty() {
                    None
                } else {
                    for e in &opts.extra {
                        let _ = match e {
                            ExtraPass::Available => AvailableValuePass::run(&mut cfg),
                            ExtraPass::EcallTermination => EcallTerminationPass::run(&mut cfg),
                            ExtraPass::Liveness => LivenessPass::run(&mut cfg),
                        };
                    }
                    Some((view(&cfg, &p.reader), lints_of(&cfg, &p.reader)))
                };
                dispose(&cfg);
                Analysis {
                    parse_errors,
                    cfg: Some(v),
                    cfg_error: None,
                    lints,
                    work,
                    after_extra,
                    yaml,
                }
            }
        }
    })
}

// ---------------------------------------------------------------------------
// small direct entry points (C08 / C17 / C19)

pub fn fold(op: &str, x: i32, y: i32) -> Result<i32, Panic> {
    let o = match op {
        "add" => MathOp::Add,
        "and" => MathOp::And,
        "or" => MathOp::Or,
        "sll" => MathOp::Sll,
        "slt" => MathOp::Slt,
        "sltu" => MathOp::Sltu,
        "sra" => MathOp::Sra,
        "srl" => MathOp::Srl,
        "sub" => MathOp::Sub,
        "xor" => MathOp::Xor,
        "mul" => MathOp::Mul,
        "mulh" => MathOp::Mulh,
        "mulhsu" => MathOp::Mulhsu,
        "mulhu" => MathOp::Mulhu,
        "div" => MathOp::Div,
        "divu" => MathOp::Divu,
        "rem" => MathOp::Rem,
        "remu" => MathOp::Remu,
        _ => panic!("harness: unknown fold op {op}"),
    };
    guarded(|| o.operate(x, y))
}

pub const FOLD_OPS: [&str; 18] = [
    "add", "and", "or", "sll", "slt", "sltu", "sra", "srl", "sub", "xor", "mul", "mulh", "mulhsu",
    "mulhu", "div", "divu", "rem", "remu",
];

/// Load a YAML dump and dump it again.
pub fn yaml_reload(yaml: &str) -> Result<Result<String, String>, Panic> {
    guarded(|| {
        let w: Result<CfgWrapper, _> = serde_yaml::from_str(yaml);
        match w {
            Err(e) => Err(format!("load failed: {e}")),
            Ok(w) => serde_yaml::to_string(&w).map_err(|e| format!("dump failed: {e}")),
        }
    })
}

// ---------------------------------------------------------------------------
// C19: the YAML dump, through the public `NodeWrapper` (a `CfgWrapper` is a
// transparent sequence of them)

use riscv_analysis::cfg::{AvailableValueMap, NodeWrapper};
use riscv_analysis::parser::{CsrImm, LabelString, Token, With};

#[derive(Clone, Debug, PartialEq, Eq, Serialize, Deserialize)]
pub struct WrapNode {
    pub shown: String,
    pub labels: Vec<String>,
    pub func_entry: Vec<usize>,
    pub func_exit: Vec<usize>,
    /// (entry, exit) of every function the node belongs to: the two lists of the dump are parallel
    #[serde(default)]
    pub func_pairs: Vec<(usize, usize)>,
    pub nexts: Vec<usize>,
    pub prevs: Vec<usize>,
    pub reg_in: BTreeMap<u8, Val>,
    pub reg_out: BTreeMap<u8, Val>,
    pub mem_in: BTreeMap<Loc, Val>,
    pub mem_out: BTreeMap<Loc, Val>,
    pub live_in: u32,
    pub live_out: u32,
    pub u_def: u32,
}

fn sorted_vec<T: Ord + Clone>(it: impl Iterator<Item = T>) -> Vec<T> {
    let mut v: Vec<T> = it.collect();
    v.sort();
    v
}

fn wrap_view(n: &NodeWrapper) -> WrapNode {
    WrapNode {
        shown: n.node.to_string(),
        labels: sorted_vec(n.labels.iter().cloned()),
        func_entry: sorted_vec(n.func_entry.iter().copied()),
        func_exit: sorted_vec(n.func_exit.iter().copied()),
        func_pairs: sorted_vec((0..n.func_entry.len().max(n.func_exit.len())).map(|k| (n.func_entry.get(k).copied().unwrap_or(usize::MAX), n.func_exit.get(k).copied().unwrap_or(usize::MAX)))),
        nexts: sorted_vec(n.nexts.iter().copied()),
        prevs: sorted_vec(n.prevs.iter().copied()),
        reg_in: n.reg_values_in.iter().map(|(r, v)| (r.to_num(), val(v))).collect(),
        reg_out: n.reg_values_out.iter().map(|(r, v)| (r.to_num(), val(v))).collect(),
        mem_in: n.memory_values_in.iter().map(|(l, v)| (loc(l), val(v))).collect(),
        mem_out: n.memory_values_out.iter().map(|(l, v)| (loc(l), val(v))).collect(),
        live_in: set_mask(&n.live_in),
        live_out: set_mask(&n.live_out),
        u_def: set_mask(&n.u_def),
    }
}

/// The view of a live graph in the same shape (what the dump is supposed to hold).
pub fn wrap_view_of_cfg(v: &CfgView) -> Vec<WrapNode> {
    v.nodes
        .iter()
        .map(|n| WrapNode {
            shown: n.shown.clone(),
            labels: n.labels.clone(),
            func_entry: sorted_vec(n.funcs.iter().map(|f| v.functions[*f].entry)),
            func_exit: sorted_vec(n.funcs.iter().map(|f| v.functions[*f].exit)),
            func_pairs: sorted_vec(n.funcs.iter().map(|f| (v.functions[*f].entry, v.functions[*f].exit))),
            nexts: n.nexts.clone(),
            prevs: n.prevs.clone(),
            reg_in: n.reg_in.clone(),
            reg_out: n.reg_out.clone(),
            mem_in: n.mem_in.clone(),
            mem_out: n.mem_out.clone(),
            live_in: n.live_in,
            live_out: n.live_out,
            u_def: n.u_def,
        })
        .collect()
}

pub fn yaml_load_view(yaml: &str) -> Result<Result<Vec<WrapNode>, String>, Panic> {
    guarded(|| {
        // load as the CfgWrapper first (that is what the golden tests do), then as its node list
        let _: CfgWrapper = serde_yaml::from_str(yaml).map_err(|e| format!("load failed: {e}"))?;
        let nodes: Vec<NodeWrapper> = serde_yaml::from_str(yaml).map_err(|e| format!("load failed: {e}"))?;
        Ok(nodes.iter().map(wrap_view).collect())
    })
}

fn unval(v: &Val) -> AvailableValue {
    let reg = |r: &u8| Register::from_num(*r % 32).unwrap_or(Register::X0);
    match v {
        Val::Const(c) => AvailableValue::Constant(*c),
        Val::Addr(l) => AvailableValue::Address(With::new(LabelString::new(l.clone()), Token::default())),
        Val::Mem(l, o) => AvailableValue::Memory(LabelString::new(l.clone()), *o),
        Val::RegS(r, o) => AvailableValue::RegisterWithScalar(reg(r), *o),
        Val::OrigS(r, o) => AvailableValue::OriginalRegisterWithScalar(reg(r), *o),
        Val::MemAtReg(r, o) => AvailableValue::MemoryAtRegister(reg(r), *o),
        Val::MemAtOrig(r, o) => AvailableValue::MemoryAtOriginalRegister(reg(r), *o),
        Val::Csr(c) => AvailableValue::ValueInCsr(CsrImm::new(*c)),
        Val::MemAtCsr(c, o) => AvailableValue::MemoryAtCsr(CsrImm::new(*c), *o),
    }
}

fn unloc(l: &Loc) -> MemoryLocation {
    match l {
        Loc::Stack(o) => MemoryLocation::StackOffset(*o),
        Loc::Csr(c) => MemoryLocation::CsrRegister(CsrImm::new(*c)),
        Loc::CsrOff(c, o) => MemoryLocation::CsrRegisterValueOffset(CsrImm::new(*c), *o),
    }
}

/// One-fact mutations of a dumped analysis result.
#[derive(Clone, Debug, PartialEq, Eq, Serialize, Deserialize)]
pub enum Mutation {
    ToggleNext { node: usize, to: usize },
    TogglePrev { node: usize, to: usize },
    ToggleLive { node: usize, set: u8, reg: u8 },
    SetReg { node: usize, out: bool, reg: u8, val: Val },
    RemoveReg { node: usize, out: bool, reg: u8 },
    SetMem { node: usize, out: bool, loc: Loc, val: Val },
    SetFuncEntry { node: usize, to: usize },
    SetFuncExit { node: usize, to: usize },
    ToggleLabel { node: usize, label: String },
}

fn toggle<T: std::hash::Hash + Eq>(s: &mut std::collections::HashSet<T>, x: T) {
    if !s.remove(&x) {
        s.insert(x);
    }
}

fn map_without<T: PartialEq + Eq + std::hash::Hash + Clone>(m: &AvailableValueMap<T>, k: &T) -> AvailableValueMap<T> {
    m.iter().filter(|(x, _)| *x != k).map(|(x, v)| (x.clone(), v.clone())).collect()
}

/// Load, mutate one fact, dump. Returns (dump of the mutated structure, its direct view).
pub fn yaml_mutate(yaml: &str, muts: &[Mutation]) -> Result<Result<(String, Vec<WrapNode>), String>, Panic> {
    guarded(|| {
        let mut nodes: Vec<NodeWrapper> = serde_yaml::from_str(yaml).map_err(|e| format!("load failed: {e}"))?;
        let n = nodes.len();
        if n == 0 {
            return Err("empty graph".to_string());
        }
        for m in muts {
            match m {
                Mutation::ToggleNext { node, to } => toggle(&mut nodes[node % n].nexts, to % n),
                Mutation::TogglePrev { node, to } => toggle(&mut nodes[node % n].prevs, to % n),
                Mutation::ToggleLive { node, set, reg } => {
                    let r = Register::from_num(1 + reg % 31).unwrap_or(Register::X1);
                    let nd = &mut nodes[node % n];
                    let s = match set % 3 {
                        0 => &mut nd.live_in,
                        1 => &mut nd.live_out,
                        _ => &mut nd.u_def,
                    };
                    if s.contains(&r) {
                        s.unset_register(&r);
                    } else {
                        s.set_register(&r);
                    }
                }
                Mutation::SetReg { node, out, reg, val } => {
                    let r = Register::from_num(reg % 32).unwrap_or(Register::X0);
                    let nd = &mut nodes[node % n];
                    if *out {
                        nd.reg_values_out.insert(r, unval(val));
                    } else {
                        nd.reg_values_in.insert(r, unval(val));
                    }
                }
                Mutation::RemoveReg { node, out, reg } => {
                    let r = Register::from_num(reg % 32).unwrap_or(Register::X0);
                    let nd = &mut nodes[node % n];
                    if *out {
                        nd.reg_values_out = map_without(&nd.reg_values_out, &r);
                    } else {
                        nd.reg_values_in = map_without(&nd.reg_values_in, &r);
                    }
                }
                Mutation::SetMem { node, out, loc, val } => {
                    let nd = &mut nodes[node % n];
                    if *out {
                        nd.memory_values_out.insert(unloc(loc), unval(val));
                    } else {
                        nd.memory_values_in.insert(unloc(loc), unval(val));
                    }
                }
                Mutation::SetFuncEntry { node, to } => nodes[node % n].func_entry = vec![to % n],
                Mutation::SetFuncExit { node, to } => nodes[node % n].func_exit = vec![to % n],
                Mutation::ToggleLabel { node, label } => toggle(&mut nodes[node % n].labels, label.clone()),
            }
        }
        let view = nodes.iter().map(wrap_view).collect();
        let dump = serde_yaml::to_string(&nodes).map_err(|e| format!("dump failed: {e}"))?;
        Ok((dump, view))
    })
}
