//! Harness library: everything is also available to the fuzz targets.

pub mod adapter;
pub mod arch;
pub mod choice;
pub mod cli;
pub mod gen;
pub mod link;
pub mod machine;
pub mod model;
pub mod paths;
pub mod monitor;
pub mod props;
pub mod reflex;
pub mod runner;
pub mod fuzz_support;
