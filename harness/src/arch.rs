//! Architectural read/write register sets of model instructions (from the
//! ISA manual and the official pseudo-instruction expansions).

use crate::model::*;

fn bit(r: u8) -> u32 {
    if r == 0 {
        0
    } else {
        1u32 << r
    }
}

fn reg_at(i: &Ins, k: usize) -> Option<u8> {
    match i.ops.get(k) {
        Some(Opd::R(r)) => Some(*r),
        _ => None,
    }
}

/// (reads, writes) as register masks without x0. Environment calls and
/// calls are *not* expanded here (their convention effects are the callers'
/// business); `ecall` reports no registers.
pub fn rw(i: &Ins) -> (u32, u32) {
    let r = |k: usize| reg_at(i, k).map(bit).unwrap_or(0);
    let base_of = |k: usize| match i.ops.get(k) {
        Some(Opd::M(_, b)) => bit(*b),
        _ => 0,
    };
    match i.mn.as_str() {
        "add" | "sub" | "and" | "or" | "xor" | "sll" | "srl" | "sra" | "slt" | "sltu" | "mul"
        | "mulh" | "mulhsu" | "mulhu" | "div" | "divu" | "rem" | "remu" | "addw" | "subw" => {
            (r(1) | r(2), r(0))
        }
        "addi" | "andi" | "ori" | "xori" | "slti" | "sltiu" | "slli" | "srli" | "srai"
        | "slliw" | "addiw" => (r(1), r(0)),
        "lui" | "auipc" | "li" | "la" => (0, r(0)),
        "mv" | "neg" | "not" | "seqz" | "snez" | "sltz" | "sgtz" => (r(1), r(0)),
        "nop" | "ebreak" | "ecall" | "uret" => (0, 0),
        "lw" | "lh" | "lb" | "lhu" | "lbu" | "lwu" => (base_of(1), r(0)),
        "sw" | "sh" | "sb" => {
            // `sw rs, label, tmp` writes tmp
            (r(0) | base_of(1), r(2))
        }
        "beq" | "bne" | "blt" | "bge" | "bltu" | "bgeu" | "bgt" | "ble" | "bgtu" | "bleu" => {
            (r(0) | r(1), 0)
        }
        "beqz" | "bnez" | "bltz" | "bgez" | "bgtz" | "blez" => (r(0), 0),
        "j" | "b" => (0, 0),
        "jal" | "call" => match reg_at(i, 0) {
            Some(d) => (0, bit(d)),
            None => (0, bit(RA)),
        },
        "ret" => (bit(RA), 0),
        "jr" => (r(0), 0),
        "jalr" => match (i.ops.first(), i.ops.get(1), i.ops.get(2)) {
            (Some(Opd::R(s)), None, None) => (bit(*s), bit(RA)),
            (Some(Opd::R(d)), Some(Opd::R(s)), Some(_)) => (bit(*s), bit(*d)),
            (Some(Opd::R(d)), Some(Opd::M(_, s)), None) => (bit(*s), bit(*d)),
            _ => (0, 0),
        },
        "csrrw" | "csrrs" | "csrrc" => (r(2), r(0)),
        "csrrwi" | "csrrsi" | "csrrci" | "csrr" => (0, r(0)),
        "csrw" | "csrs" | "csrc" => (r(0), 0),
        _ => (0, 0),
    }
}
