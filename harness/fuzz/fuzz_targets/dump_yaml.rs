#![no_main]
//! bytes -> YAML text -> CfgWrapper load/dump (C19): whatever loads must
//! dump, and the dump must be a fixed point of load+dump.
use libfuzzer_sys::fuzz_target;
use rvverif::adapter;

fuzz_target!(|data: &[u8]| {
    let Ok(text) = std::str::from_utf8(data) else { return };
    if let Ok(Ok(d1)) = adapter::yaml_reload(text) {
        match adapter::yaml_reload(&d1) {
            Ok(Ok(d2)) => assert!(d1 == d2, "C19: dump(load(dump(x))) differs from dump(x)"),
            Ok(Err(e)) => panic!("C19: an emitted dump cannot be loaded: {e}"),
            Err(p) => panic!("C19: loading an emitted dump panicked: {}", p.message),
        }
        if let Ok(Ok(v1)) = adapter::yaml_load_view(&d1) {
            if let Ok(Ok((d3, v3))) = adapter::yaml_mutate(&d1, &[]) {
                assert!(v1 == v3, "C19: two loads of the same dump differ");
                let _ = d3;
            }
        }
    }
});
