#![no_main]
//! bytes -> text -> library pipeline. In-target oracles: no panic / sweep
//! limit (C06), lexer tokens against the reference tokenizer (C09), every
//! content line covered by a node or an error (C07).
use libfuzzer_sys::fuzz_target;
use rvverif::adapter;
use rvverif::model::TextIndex;
use rvverif::reflex;

/// VERIF_FUZZ_ORACLES=C06,C07,C09 selects the in-target oracles (default: all three).
fn on(id: &str) -> bool {
    static SEL: std::sync::OnceLock<String> = std::sync::OnceLock::new();
    let s = SEL.get_or_init(|| std::env::var("VERIF_FUZZ_ORACLES").unwrap_or_else(|_| "C06,C07,C09".into()));
    s.split(',').any(|x| x == id)
}

fuzz_target!(|data: &[u8]| {
    let text = String::from_utf8_lossy(data).into_owned();
    let files = adapter::single(&text);
    adapter::hooks_set_sweep_limit(Some(50_000));
    // C06: the library entry point must return
    if on("C06") {
        let _ = rvverif::fuzz_support::unguarded_run(&files);
    }
    // C09 (A): token boundaries
    let ti = TextIndex::new(&text);
    let rtoks = reflex::tokenize(&ti.chars);
    if on("C09") && !rtoks.iter().any(|t| t.kind == "badliteral") {
        if let Ok(toks) = adapter::lex(&text) {
            for t in toks.iter().filter(|t| !t.is_err) {
                let ok = rtoks.iter().any(|r| r.start == t.range.start.raw && r.end == t.range.end.raw + 1);
                assert!(ok, "C09: token {:?} at raw {}..={} is not a token of the reference tokenizer", t.text, t.range.start.raw, t.range.end.raw);
                let (l, c) = ti.line_col(t.range.start.raw);
                assert!(l == t.range.start.line && c == t.range.start.col, "C09: token {:?} line/column {}:{} but raw offset is at {}:{}", t.text, t.range.start.line, t.range.start.col, l, c);
            }
        }
    }
    // C07 (A): every line with content is covered
    if !on("C07") {
        return;
    }
    if let Ok(p) = adapter::parse(&files) {
        let mut covered = std::collections::BTreeSet::new();
        for n in &p.nodes {
            covered.insert(ti.line_col(n.range.start.raw.min(ti.len())).0);
        }
        for e in &p.errors {
            covered.insert(ti.line_col(e.range.start.raw.min(ti.len())).0);
        }
        let in_macro = text.to_lowercase().contains(".macro") || text.to_lowercase().contains(".include");
        if !in_macro && !rtoks.iter().any(|t| t.kind == "badliteral") {
            // data lists continue over following lines: a line of pure literals after a data directive is covered by it
            let mut prev_data = false;
            for l in 0..ti.n_lines() {
                let lt = ti.line_text(l);
                let t = lt.trim_matches(|c: char| reflex::is_blank(c));
                let has = !t.is_empty() && !t.starts_with('#');
                let starts_literal = t.chars().next().map(|c| c.is_ascii_digit() || c == '-' || c == '\'').unwrap_or(false);
                if has && !covered.contains(&l) && !(prev_data && starts_literal) {
                    panic!("C07: line {} {:?} produced neither a node nor an error located on it", l + 1, lt);
                }
                if has {
                    let low = t.to_lowercase();
                    prev_data = [".word", ".half", ".byte", ".dword", ".float", ".double"].iter().any(|d| low.contains(d)) || (prev_data && starts_literal);
                }
            }
        }
    }
});
