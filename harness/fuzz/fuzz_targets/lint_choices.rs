#![no_main]
//! bytes -> choice sequence -> the harness's own generators and oracles:
//! every property check becomes a structure-aware fuzz target. The first
//! byte selects the property.
use libfuzzer_sys::fuzz_target;
use rvverif::runner::{Ctx, Tier};

const IDS: [&str; 8] = ["C06", "C07", "C09", "C17", "C01", "C03", "C12", "C19"];

fuzz_target!(|data: &[u8]| {
    if data.len() < 5 {
        return;
    }
    let id = std::env::var("VERIF_FUZZ_PROPERTY").unwrap_or_else(|_| IDS[data[0] as usize % IDS.len()].to_string());
    let choices: Vec<u32> = data[1..].chunks(4).map(|c| {
        let mut b = [0u8; 4];
        b[..c.len()].copy_from_slice(c);
        u32::from_le_bytes(b)
    }).collect();
    let reg = rvverif::fuzz_support::registry();
    let Some(e) = reg.iter().find(|e| e.id == id) else { return };
    let mut ctx = Ctx::default();
    let out = (e.run)(&choices, Tier::Quick, &mut ctx);
    let findings = rvverif::fuzz_support::findings();
    for v in &out.violations {
        if rvverif::runner::match_finding(findings, e.id, v).is_none() {
            panic!("VIOLATION property={} sig={:?}\n{}", e.id, v.sig, v.msg);
        }
    }
});
