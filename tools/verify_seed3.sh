#!/bin/sh
# usage: tools/verify_seed3.sh <ID> <C|D> [worktree-prefix]
# Confirms, inside the agent's scratch worktree, that the seeded change applies, builds, passes the
# repository's test suite, and that its demonstration behaves differently with and without it.
ID=$1; X=$2; PFX=${3:-/tmp/wt3-}
WT=$PFX$ID; S=$WT/.seeded/$X
cd "$WT" || exit 2
git checkout -q -- . 2>/dev/null
rm -f riscv_analysis/tests/seed_demo.rs
OUT=$S/verify.txt; : > "$OUT"
run_demo() { # $1 = tag
  find "$S" -name "*.s" | sort | while read f; do
    d=$(dirname "$f"); b=$(basename "$f")
    for mode in "--compact --no-color --all-files" "--debug --no-color" "--json" "--no-color"; do
      echo "### ${f#$S/} $mode" >> "$S/demo_$1.txt"
      (cd "$d" && timeout 20 "$WT/target/debug/rva" lint "$b" $mode 2>&1 | sed "s#$S#<dir>#g" >> "$S/demo_$1.txt"; echo "exit=$?" >> "$S/demo_$1.txt")
    done
  done
  if [ -f "$S/demo_test.rs" ]; then
    mkdir -p riscv_analysis/tests
    cp "$S/demo_test.rs" riscv_analysis/tests/seed_demo.rs
    if cargo test --offline -p riscv_analysis --test seed_demo > "$S/demo_test_$1.txt" 2>&1; then echo "DEMO TEST PASSES ($1)" >> "$OUT"; else echo "DEMO TEST FAILS ($1)" >> "$OUT"; fi
    rm -f riscv_analysis/tests/seed_demo.rs
  fi
}
rm -f "$S"/demo_with.txt "$S"/demo_without.txt
cargo build --offline -q 2>>"$OUT" || { echo "BASE BUILD FAILED" >> "$OUT"; exit 1; }
run_demo without
if ! git apply "$S/patch.diff" 2>>"$OUT"; then echo "PATCH DOES NOT APPLY" >> "$OUT"; exit 1; fi
if ! cargo build --offline -q 2>>"$OUT"; then echo "BUILD FAILED" >> "$OUT"; git checkout -q -- .; exit 1; fi
if cargo test --workspace --offline > "$S/tests_with.txt" 2>&1; then echo "TESTS PASS" >> "$OUT"; else echo "TESTS FAIL" >> "$OUT"; fi
grep -E "^test result" "$S/tests_with.txt" | head -8 >> "$OUT"
run_demo with
git checkout -q -- .
git status --short | grep -v "^?? .seeded" >> "$OUT"
if cmp -s "$S/demo_with.txt" "$S/demo_without.txt"; then echo "DEMO SAME (lint outputs of *.s identical)" >> "$OUT"; else echo "DEMO DIFFERS" >> "$OUT"; fi
echo "== $ID-$X"; grep -E "TESTS|DEMO|FAILED|APPLY" "$OUT" | tr '\n' ';'; echo
