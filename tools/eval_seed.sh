#!/bin/sh
# usage: tools/eval_seed.sh <seed-dir-name> <ID>...   e.g. tools/eval_seed.sh C05-A C05
# Applies the seeded change to /repo, runs the quick checks, undoes it. Prints one line per check.
D=/verif/seeded/$1; shift
trap 'git -C /repo checkout -- .' EXIT INT TERM
git -C /repo apply "$D/patch.diff" || { echo "$D: patch does not apply"; exit 2; }
for id in "$@"; do
  out=$(cd /verif && timeout 2400 ./check "$id" quick 2>&1); code=$?
  nv=$(echo "$out" | grep -c "^VIOLATION")
  sig=$(echo "$out" | grep -m1 "sig=" | cut -c1-160)
  echo "$(basename $D) check=$id exit=$code violations=$nv $sig"
done
