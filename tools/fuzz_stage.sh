#!/bin/sh
# Coverage-guided stage of the thorough tier:  tools/fuzz_stage.sh <ID> <seed>
#
# Every property gets a structure-aware campaign (target lint_choices: fuzz bytes -> choice
# sequence -> the property's own generator and oracle); C06, C07 and C09 also get a byte-level
# campaign over raw program text with a dictionary and a seed corpus (target lint_bytes, oracle
# selected by VERIF_FUZZ_ORACLES), C19 one over raw YAML (target dump_yaml).
#
# Work is bounded by execution count (-runs) per job; -max_total_time is only a safety net and a
# job that ends by it still counts as "no violation found within the budget". Jobs are plain
# libFuzzer processes (not -fork: the CFG leaks by design, so every job has an RSS limit and ends
# early with exit 2 semantics - counted, not a violation - if it is reached).
#
# Prints VIOLATION property=<ID> replay=<file> for every crash that reproduces when the saved
# input is run again alone; exit 0 none / 1 violation / 2 infrastructure.
ID=$1
SEED=${2:-1}
ROOT=$(cd "$(dirname "$0")/.." && pwd)
FT="$ROOT/.cache/fuzz-target"
WORK="$ROOT/.cache/work/fuzz-$ID"
SCALE=${VERIF_SCALE:-1}
JOBS=${VERIF_FUZZ_JOBS:-14}
export CARGO_NET_OFFLINE=true
export VERIF_ROOT="$ROOT"
export ASAN_OPTIONS=detect_leaks=0:abort_on_error=1:symbolize=0
rm -rf "$WORK"; mkdir -p "$WORK"

targets="lint_choices"
case "$ID" in
C06|C07|C09) targets="lint_choices lint_bytes" ;;
C19) targets="lint_choices dump_yaml" ;;
esac

if ! (cd "$ROOT/harness" && RUSTFLAGS="--cfg rajanmaghera_riscv_analysis_verif" \
        cargo +nightly fuzz build --target-dir "$FT" >"$ROOT/.cache/build-fuzz.log" 2>&1); then
    echo "fuzz targets do not build" >&2
    grep -E "^error" -A 12 "$ROOT/.cache/build-fuzz.log" | head -40 >&2
    exit 2
fi
BINDIR="$FT/x86_64-unknown-linux-gnu/release"

rc=0
total_exec=0
summary=""
for T in $targets; do
    case "$T" in
    lint_choices) runs=40000; maxlen=2048; dict=""; seedcorp="$ROOT/corpus/lint_choices" ;;
    lint_bytes)   runs=150000; maxlen=1024; dict="-dict=$ROOT/corpus/rv.dict"; seedcorp="$ROOT/corpus/lint_bytes" ;;
    dump_yaml)    runs=150000; maxlen=4096; dict=""; seedcorp="$ROOT/corpus/dump_yaml" ;;
    esac
    # process-spawning properties are two orders of magnitude slower per case
    case "$ID" in C10|C15|C18) [ "$T" = lint_choices ] && runs=1500 ;; esac
    runs=$(python3 -c "print(max(100,int($runs*$SCALE)))")
    k=1
    while [ $k -le $JOBS ]; do
        d="$WORK/$T-$k"; mkdir -p "$d/corpus" "$d/art"
        # half of the jobs start from the seed corpus, half from nothing (corpus choice matters)
        extra=""
        if [ $((k % 2)) -eq 0 ] && [ -d "$seedcorp" ] && [ -n "$(ls -A "$seedcorp" 2>/dev/null)" ]; then extra="$seedcorp"; fi
        ( cd "$d" && VERIF_FUZZ_PROPERTY="$ID" VERIF_FUZZ_ORACLES="$ID" \
            "$BINDIR/$T" -runs=$runs -seed=$((SEED * 1000 + k)) -len_control=0 -max_len=$maxlen \
            -rss_limit_mb=6000 -malloc_limit_mb=2000 -timeout=120 -max_total_time=3000 $dict \
            -artifact_prefix="$d/art/" -print_final_stats=1 "$d/corpus" $extra >"$d/log" 2>&1 ) &
        k=$((k + 1))
    done
    wait
    # collect
    execs=0; crashes=0; corpus=0
    k=1
    while [ $k -le $JOBS ]; do
        d="$WORK/$T-$k"
        n=$(grep -a "stat::number_of_executed_units" "$d/log" | awk '{print $2}' | tail -1)
        execs=$((execs + ${n:-0}))
        corpus=$((corpus + $(ls "$d/corpus" | wc -l)))
        for a in "$d"/art/*; do
            [ -f "$a" ] || continue
            case "$(basename "$a")" in
            crash-*)
                # confirm alone, from a fresh process
                if VERIF_FUZZ_PROPERTY="$ID" VERIF_FUZZ_ORACLES="$ID" "$BINDIR/$T" -rss_limit_mb=6000 "$a" >"$d/confirm.log" 2>&1; then
                    echo "note: $T crash $(basename "$a") does not reproduce alone: not counted" >&2
                else
                    crashes=$((crashes + 1))
                    mkdir -p "$ROOT/replays/$ID/new"
                    dest="$ROOT/replays/$ID/new/fuzz-$T-$(basename "$a" | cut -c7-22).bin"
                    cp "$a" "$dest"
                    echo "VIOLATION property=$ID replay=$dest"
                    grep -a -m1 -E "panicked at|VIOLATION property|C0[679]:|C19:" -A 3 "$d/confirm.log" | cut -c1-400 | sed 's/^/  /'
                    rc=1
                fi
                ;;
            oom-*|timeout-*|slow-unit-*)
                echo "note: $T job $k ended with $(basename "$a" | cut -d- -f1) (resource limit): counted as inconclusive for that job" >&2
                ;;
            esac
        done
        k=$((k + 1))
    done
    total_exec=$((total_exec + execs))
    summary="$summary{\"target\":\"$T\",\"jobs\":$JOBS,\"runs_per_job\":$runs,\"executions\":$execs,\"corpus_units_found\":$corpus,\"confirmed_crashes\":$crashes},"
    echo "$ID thorough fuzz: target $T, $JOBS jobs, $execs executions, $corpus corpus units, $crashes confirmed crashes"
done

# merge into the evidence file written by the generated-search stage
python3 - "$ROOT/evidence/$ID.json" "[${summary%,}]" <<'EOF'
import json, sys
p, s = sys.argv[1], json.loads(sys.argv[2])
try:
    e = json.load(open(p))
except Exception:
    sys.exit(0)
e['coverage']['fuzz_campaigns'] = s
e['coverage']['evaluations'] = e['coverage'].get('evaluations', 0) + sum(x['executions'] for x in s)
e['coverage']['rule'] += " Thorough tier adds libFuzzer campaigns (coverage-guided) whose executions are counted in evaluations but not in distinct_nontrivial."
e['violations'] = e.get('violations', 0) + sum(x['confirmed_crashes'] for x in s)
json.dump(e, open(p, 'w'), indent=1)
EOF
if [ $rc -eq 0 ] && [ "$total_exec" -eq 0 ]; then
    echo "fuzz stage executed nothing" >&2
    exit 2
fi
rm -rf "$WORK"
exit $rc
