#!/bin/sh
# run the thorough tier of the given properties one after the other (background trial)
cd "$(dirname "$0")/.." || exit 2
./check setup >/dev/null 2>&1
for id in "$@"; do
  start=$(date +%s)
  out=$(./check $id thorough 2>&1); code=$?
  echo "$id thorough exit=$code $(( $(date +%s) - start )) s"
  echo "$out" | grep -a -E "^VIOLATION|thorough:|thorough fuzz|died|inconclusive|note:" | cut -c1-220
done
echo finished
