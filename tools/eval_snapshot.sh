#!/bin/sh
# Evaluate seeded changes inside a `vp run --with-repo` snapshot, so that /repo and /verif stay free:
#   vp run --with-repo -- tools/eval_snapshot.sh C01-C C01-D ...
# The snapshot's harness is pointed at the snapshot of the repository ($VP_RUN_REPO); each change is
# applied there, the quick check of its property is run from this snapshot, and the change is undone.
R=${VP_RUN_REPO:?needs vp run --with-repo}
V=$(pwd)
sed -i "s#/repo/#$R/#g" harness/Cargo.toml check
sed -i "s#/verif/#$V/#g" harness/.cargo/config.toml
export VERIF_ROOT="$V"
for s in "$@"; do
  id=${s%%-*}
  if ! git -C "$R" apply "$V/seeded/$s/patch.diff"; then echo "$s: patch does not apply"; continue; fi
  out=$(./check "$id" quick 2>&1); code=$?
  nv=$(echo "$out" | grep -a -c "^VIOLATION")
  sig=$(echo "$out" | grep -a -m1 "sig=" | cut -c1-170)
  echo "$s check=$id exit=$code violations=$nv $sig"
  git -C "$R" apply -R "$V/seeded/$s/patch.diff" || echo "$s: cannot undo"
done
echo finished
