#!/usr/bin/env python3
"""Promote saved failing inputs (replays/<ID>/new/*.json, written by checks when a violation was
seen - on a defect since repaired, on an oracle since corrected, or on a seeded change) to the
committed regression tier replays/<ID>/*.json. Only inputs on which the property now holds are
kept, at most 3 per violation signature, none larger than 100 kB."""
import json, os, subprocess, sys, glob, shutil, collections
root = '/verif'
exe = root + '/.cache/target/checked/rvverif'
kept = collections.Counter()
for d in sorted(glob.glob(root + '/replays/*/new')):
    pid = d.split('/')[-2]
    per_sig = collections.Counter()
    for f in sorted(glob.glob(d + '/*.json'), key=os.path.getsize):
        if os.path.getsize(f) > 100_000:
            continue
        try:
            j = json.load(open(f))
        except Exception:
            continue
        if j.get('case') is None:
            continue
        sig = json.dumps([v.get('sig') for v in j.get('violations', [])][:1], sort_keys=True)
        if per_sig[sig] >= 3:
            continue
        try:
            r = subprocess.run([exe, 'replay', pid, f], capture_output=True, text=True, timeout=120)
        except subprocess.TimeoutExpired:
            continue
        if r.returncode != 0:
            print('still failing or unreadable:', pid, os.path.basename(f), r.returncode, (r.stdout + r.stderr)[:200].replace('\n', ' | '))
            continue
        per_sig[sig] += 1
        shutil.copy(f, f'{root}/replays/{pid}/{os.path.basename(f)}')
        kept[pid] += 1
print(dict(kept))
