#!/usr/bin/env python3
"""Regenerate the table of section 9.1 of DESIGN.md from known_findings.json."""
import json, re
p = '/verif/DESIGN.md'
s = open(p).read()
k = json.load(open('/verif/known_findings.json'))
rows = ["| First seen by | Commit | What failed |", "|---|---|---|"]
fixed = [f for f in k['findings'] if f['status'] == 'fixed']
for f in fixed:
    what = f['what'].split(' ', 3)[3]
    rows.append(f"| {f['property']} | `{f['commit']}` | {what} |")
a = s.index("<!-- FINDINGS-TABLE-BEGIN")
a = s.index("\n", a) + 1
b = s.index("<!-- FINDINGS-TABLE-END -->")
s = s[:a] + "\n".join(rows) + "\n" + s[b:]
s = re.sub(r"the \d+ genuine defects the checks found", "the %d genuine defects the checks found" % len(fixed), s)
open(p, 'w').write(s)
print(len(fixed), "fixed findings")
