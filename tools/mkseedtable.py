#!/usr/bin/env python3
"""Regenerate the table of seeded changes in DESIGN.md section 6 from seeded/*/meta.json and the
result files (first try: RESULTS-round1.txt, RESULTS-round3-first-try.txt, RESULTS-round5-first-try.txt;
now: RESULTS-final.txt). Prints the counts used in the prose."""
import json, re, os, glob
R = '/verif/seeded/'
def load(path):
    d = {}
    if not os.path.exists(path):
        return d
    for l in open(path, errors='replace'):
        m = re.match(r'(C\d\d-[A-Z]) check=(C\d\d) exit=(\d+) violations=(\d+)\s*(sig=(.*))?', l.strip())
        if m:
            d[m.group(1)] = (int(m.group(3)), int(m.group(4)), (m.group(6) or '').strip())
    return d
first = {}
for f in ['RESULTS-round1.txt', 'RESULTS-round3-first-try.txt', 'RESULTS-round5-first-try.txt', 'RESULTS-round7-first-try.txt', 'RESULTS-round9-first-try.txt']:
    first.update(load(R + f))
final = load(R + 'RESULTS-final.txt')
rows = ["| Seeded change | What it changes (needs to manifest) | First try | Now | Reported as |", "|---|---|---|---|---|"]
stats = {}
for d in sorted(glob.glob(R + 'C*-*')):
    s = os.path.basename(d)
    m = json.load(open(d + '/meta.json'))
    summ = m.get('summary', '').replace('|', '/').replace('\n', ' ')
    if len(summ) > 230:
        summ = summ[:227] + '...'
    sup = 'superseded' in m
    fdet = first.get(s, (0, 0, ''))[1] > 0
    ndet = final.get(s, (0, 0, ''))[1] > 0
    rnd = {'A': 1, 'B': 1, 'C': 3, 'D': 3, 'E': 5, 'F': 5, 'G': 7, 'H': 7, 'I': 9, 'J': 9}[s[-1]]
    st = stats.setdefault(rnd, {'n': 0, 'first': 0, 'live': 0, 'now': 0})
    st['n'] += 1; st['first'] += fdet
    if not sup:
        st['live'] += 1; st['now'] += ndet
    sig = re.sub(r'[{}"]', '', final.get(s, (0, 0, ''))[2])
    rows.append(f"| {s} | {summ} | {'yes' if fdet else 'no'} | {'superseded (9.3)' if sup else ('yes' if ndet else 'NO')} | {sig if ndet else ''} |")
p = '/verif/DESIGN.md'
s = open(p).read()
a = s.index("<!-- SEED-TABLE-BEGIN")
a = s.index("\n", a) + 1
b = s.index("<!-- SEED-TABLE-END -->")
s = s[:a] + "\n".join(rows) + "\n" + s[b:]
open(p, 'w').write(s)
print(stats)
