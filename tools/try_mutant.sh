#!/bin/sh
# usage: tools/try_mutant.sh <patch.diff> <ID>...   — apply a patch to /repo, run the quick checks, undo it
P=$1; shift
cd /repo || exit 2
git apply "$P" || { echo "patch does not apply"; exit 2; }
for id in "$@"; do
  (cd /verif && ./check "$id" quick 2>&1 | grep -E "^(VIOLATION|C[0-9]+ quick|KNOWN)" | cut -c1-220 | sort | uniq -c | head -6)
done
git -C /repo checkout -- .
