#!/usr/bin/env python3
"""Copy a verified seeded change from an agent's scratch worktree into /verif/seeded/<id>/."""
import json, os, shutil, sys
pid, x = sys.argv[1], sys.argv[2]
src = f"/tmp/wt-{pid}/.seeded/{x}"
dst = f"/verif/seeded/{pid}-{x}"
os.makedirs(dst, exist_ok=True)
for f in os.listdir(src):
    if f in ("tests_with.txt",):
        continue
    p = os.path.join(src, f)
    if os.path.isfile(p) and os.path.getsize(p) < 400_000:
        shutil.copy(p, os.path.join(dst, f))
meta = {}
try:
    meta = json.load(open(os.path.join(src, "meta.json")))
except Exception as e:
    meta = {"note": f"agent meta.json unreadable: {e}"}
ver = open(os.path.join(src, "verify.txt")).read()
meta["property"] = pid
meta["verified_by_harness_author"] = {
    "where": f"scratch worktree /tmp/wt-{pid} (removed afterwards)",
    "ran": ["git apply patch.diff", "cargo build --offline", "cargo test --workspace --offline", "rva lint <demo>.s --compact/--debug/--json with and without the change"],
    "tests_pass_with_change": "TESTS PASS" in ver,
    "demo_output_differs": "DEMO DIFFERS" in ver,
}
json.dump(meta, open(os.path.join(dst, "meta.json"), "w"), indent=1)
print(dst, meta["verified_by_harness_author"]["tests_pass_with_change"], meta["verified_by_harness_author"]["demo_output_differs"])
