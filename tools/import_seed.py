#!/usr/bin/env python3
"""Copy a verified seeded change from an agent's scratch worktree into /verif/seeded/<id>/."""
import json, os, shutil, sys
pid, x = sys.argv[1], sys.argv[2]
pfx = sys.argv[3] if len(sys.argv) > 3 else "/tmp/wt-"
src = f"{pfx}{pid}/.seeded/{x}"
dst = f"/verif/seeded/{pid}-{x}"
os.makedirs(dst, exist_ok=True)
for base, dirs, files in os.walk(src):
    for f in files:
        if f in ("tests_with.txt",):
            continue
        p = os.path.join(base, f)
        rel = os.path.relpath(p, src)
        if os.path.getsize(p) < 400_000:
            os.makedirs(os.path.dirname(os.path.join(dst, rel)) or dst, exist_ok=True)
            shutil.copy(p, os.path.join(dst, rel))
meta = {}
try:
    meta = json.load(open(os.path.join(src, "meta.json")))
except Exception as e:
    meta = {"note": f"agent meta.json unreadable: {e}"}
ver = open(os.path.join(src, "verify.txt")).read()
meta["property"] = pid
meta["verified_by_harness_author"] = {
    "where": f"scratch worktree {pfx}{pid} (removed afterwards)",
    "ran": ["git apply patch.diff", "cargo build --offline", "cargo test --workspace --offline", "rva lint <demo>.s --compact/--debug/--json with and without the change"],
    "tests_pass_with_change": "TESTS PASS" in ver,
    "demo_output_differs": "DEMO DIFFERS" in ver,
    "demo_test_passes_without_and_fails_with": ("DEMO TEST PASSES (without)" in ver and "DEMO TEST FAILS (with)" in ver) if "DEMO TEST" in ver else None,
}
json.dump(meta, open(os.path.join(dst, "meta.json"), "w"), indent=1)
print(dst, meta["verified_by_harness_author"]["tests_pass_with_change"], meta["verified_by_harness_author"]["demo_output_differs"])
