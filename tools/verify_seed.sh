#!/bin/sh
# usage: tools/verify_seed.sh <ID> <A|B>
# Confirms, inside the agent's scratch worktree /tmp/wt-<ID>, that the seeded change applies, builds,
# passes the repository's test suite, and that its demo program behaves differently with and without it.
ID=$1; X=$2
WT=/tmp/wt-$ID; S=$WT/.seeded/$X
cd "$WT" || exit 2
git checkout -q -- . 2>/dev/null
OUT=$S/verify.txt; : > "$OUT"
run_demo() { # $1 = tag
  for f in "$S"/*.s; do
    [ -f "$f" ] || continue
    b=$(basename "$f")
    for mode in "--compact --no-color" "--debug --no-color" "--json"; do
      echo "### $b $mode" >> "$S/demo_$1.txt"
      (cd "$S" && timeout 20 "$WT/target/debug/rva" lint "$b" $mode >> "$S/demo_$1.txt" 2>&1; echo "exit=$?" >> "$S/demo_$1.txt")
    done
  done
}
rm -f "$S"/demo_with.txt "$S"/demo_without.txt
cargo build --offline -q 2>>"$OUT" || { echo "BASE BUILD FAILED" >> "$OUT"; exit 1; }
run_demo without
if ! git apply "$S/patch.diff" 2>>"$OUT"; then echo "PATCH DOES NOT APPLY" >> "$OUT"; exit 1; fi
if ! cargo build --offline -q 2>>"$OUT"; then echo "BUILD FAILED" >> "$OUT"; git checkout -q -- .; exit 1; fi
if cargo test --workspace --offline > "$S/tests_with.txt" 2>&1; then echo "TESTS PASS" >> "$OUT"; else echo "TESTS FAIL" >> "$OUT"; fi
grep -E "^test result" "$S/tests_with.txt" | head -8 >> "$OUT"
run_demo with
git checkout -q -- .
if cmp -s "$S/demo_with.txt" "$S/demo_without.txt"; then echo "DEMO SAME (lint/debug/json of *.s identical)" >> "$OUT"; else echo "DEMO DIFFERS" >> "$OUT"; fi
cat "$OUT"
