#!/bin/sh
# Evaluate every seeded change against the quick check of its own property. Sequential (/repo is shared).
out=${1:-/verif/seeded/RESULTS-round2.txt}
: > "$out"
for d in /verif/seeded/C*-*; do
  s=$(basename $d); id=${s%%-*}
  /verif/tools/eval_seed.sh $s $id >> "$out" 2>&1
done
git -C /repo status --short >> "$out"
echo "finished" >> "$out"
