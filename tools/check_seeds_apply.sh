#!/bin/sh
# every seeded patch must still apply to /repo's HEAD (rebase the patch when a fix touches the same lines)
rc=0
for s in /verif/seeded/*/; do
  [ -f "$s/patch.diff" ] || continue
  git -C /repo apply --check "$s/patch.diff" 2>/dev/null || { echo "DOES NOT APPLY: $(basename $s)"; rc=1; }
done
exit $rc
