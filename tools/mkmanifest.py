#!/usr/bin/env python3
"""Regenerate MANIFEST.json from the table below (kept in one place so that the
claimed list, the not_applicable list and the commands cannot drift apart)."""
import json, subprocess, sys, os

ROOT = os.path.dirname(os.path.dirname(os.path.abspath(__file__)))

# id -> (technique, level text, level note, design ref)
CHECKS = {
    "C01": ("property-based testing: differential execution, analyzer claims vs an RV32IM reference interpreter at every executed program point",
            "Generated-input search over ABI-safe but internally wild programs x several initial register/memory/environment vectors; every constant / label-address / entry-value+constant claim for registers and stack slots attached to an executed node is compared with the machine state of the current activation, before and after the instruction. Exploration.",
            "Trusts the reference machine, the statement/node correspondence and the generator's ABI-safety (a trace is cut where a function writes at or above its entry sp).", "5/C01"),
    "C03": ("property-based testing: generated programs executed on an RV32IM reference interpreter; executed transfers vs CFG edges, structural edge invariants",
            "Generated-input search over arbitrary programs in the stated domain x several initial states: inverse successor/predecessor sets, every executed transfer is an edge, every edge is legitimate, exits have no successors, executed code is never reported unreachable. Exploration.",
            "Trusts the reference machine and the statement/node correspondence (by order, cross-checked by offsets).", "5/C03"),
    "C02": ("property-based testing: differential against a reference least-fixed-point solver of the documented equations + dynamic def-use check on an RV32IM reference interpreter",
            "Generated-input search over three program generators. Static: live sets, argument/return sets and 'unused value' warnings must equal the least solution of the documented equations computed by an independent solver with architectural read/write sets. Dynamic: every register read on executed traces must be live from its definition along the executed path. Exploration.",
            "Trusts the reference solver's transcription of the documented equations, the architectural read/write table and the reference machine.", "5/C02"),
    "C04": ("property-based testing: conforming-by-construction generator + dynamic convention monitor; oracle = empty diagnostic list",
            "Generated-input search over programs that follow the convention by construction and are confirmed by a dynamic monitor on three executions, rendered with every surface freedom: no diagnostic of any kind may be produced. Exploration.",
            "'Conforming' is encoded in the generator and the monitor (trusted base), not taken from the analyzer.", "5/C04"),
    "C05": ("property-based testing with fault injection: 16 violation classes injected into clean base programs, confirmed by the dynamic monitor where observable",
            "Generated-input search over base program x violation class x site/register: a diagnostic of the class's kind must be located in the class's acceptance set. Exploration; evidence tabulates cases per class.",
            "Trusts the clean generator's metadata (sites) and the convention monitor.", "5/C05"),
    "C06": ("property-based testing / generative fuzzing with process isolation: hostile text in five modes + structural scaling families, in-process with catch_unwind and deterministic sweep limit, CLI under a CPU-time limit; libFuzzer targets in the thorough tier",
            "Generated-input search: ~20 000 hostile inputs per quick run (thorough: 1.5 M plus coverage-guided libFuzzer campaigns) through the library entry point in the overflow-checked and the release profile, a sample through the rva binary in all 9 output modes; crash, panic, stack overflow, sweep-limit, import-budget and CPU-limit are violations, a wall-clock watchdog expiry is inconclusive. Work bound from deterministic hook counters. Exploration.",
            "Absence of crashes is only established for the inputs generated; stack exhaustion depends on the 8 MiB default stack.", "5/C06"),
    "C07": ("property-based testing (proptest choice sequences): coverage oracle + deletion metamorphic relation over generated files with injected malformed lines",
            "Generated-input search: thousands of generated one-statement-per-line files with malformed lines of 14 kinds at random positions (LF/CRLF, with/without final newline, include split); every content line must be covered by a node or an error on it, and all other lines must parse as in the file with the malformed lines deleted. Exploration, not proof: absence of a violation is only established for the cases generated.",
            "Trusts the harness's own line arithmetic (recomputed from raw offsets) and the generator's list of malformed-line kinds.", "5/C07"),
    "C08": ("exhaustive enumeration of a decode table + property-based testing of folding: differential execution against an RV32IM reference interpreter",
            "The decode table (every mnemonic the manual defines x operand forms x boundary registers/immediates) is enumerated exhaustively; each built node is executed next to the official meaning on the reference machine. Folding is compared with the machine ALU on a 40x40 boundary grid for all 18 operators (exhaustive), through the value analysis on a 12x12 grid for 27 mnemonics, and on random 32-bit pairs, in the overflow-checked and the release profile.",
            "Trusts the reference machine (hand-computed vectors + i128 differential in its unit tests). Forms without a meaning in the manual are listed as not checked.", "5/C08"),
    "C09": ("property-based testing: differential against a reference tokenizer + renderer source map, position arithmetic recomputed from the text",
            "Generated-input search over programs rendered with every surface freedom; each token, node, operand, parse error and diagnostic location is compared with a reference tokenizer and the renderer's source map. Exploration.",
            "Trusts the reference tokenizer (written from the documented token classes) and the renderer's source map (unit-tested).", "5/C09"),
    "C10": ("property-based testing: repeated fresh runs of the library entry point compared item by item (hash seeds and uuids sampled by repetition), duplicate search",
            "Each generated single- or multi-file program is linted 6 times (12 thorough) with fresh readers, uuids and hasher keys; outputs must be identical and duplicate-free. A two-way hash-order tie is detected with probability 1-2^-(R-1) per case. Exploration.",
            "Hash-iteration orders cannot be enumerated; they are sampled.", "5/C10"),
    "C11": ("property-based testing: function set from the text, bodies by an own reachability search over the observed edges",
            "Generated-input search over arbitrary call/label arrangements, 3 analyses per program: function entries = call targets, nodes() = reachable set, owner lists consistent, one reached return as exit with other returns leading to it, sharing reported iff it exists. Exploration.",
            "Trusts the harness's BFS over the edges the analyzer reports (C03 checks those edges).", "5/C11"),
    "C12": ("property-based testing over programs x sequences of extra pass runs; snapshot equality; hook counters for the sweep bound",
            "Generated-input search: the snapshot of facts/edges/diagnostics after the pipeline must equal the snapshot after 0-6 extra pass runs and that of a second fresh analysis; sweeps are bounded linearly in the node count via deterministic counters. Exploration.",
            "Sweep counters from the guarded hook commit.", "5/C12"),
    "C13": ("property-based testing: metamorphic relation (meaning-preserving rewrites: surface style + pseudo/official expansion with operand maps)",
            "Generated-input search: each program is rendered canonically and rewritten (23 pseudo-instruction rules + every surface freedom at every site); the located diagnostic multisets must be equal. Exploration.",
            "Trusts the renderer's source map and the transcription of the official expansions.", "5/C13"),
    "C14": ("property-based testing: metamorphic relation (injective label renaming, permutations within the temporary and the saved register class)",
            "Generated-input search: renamed programs must get the same located diagnostics with registers mapped through the permutation. Exploration.",
            "Trusts the renderer's source map.", "5/C14"),
    "C15": ("property-based testing: metamorphic relation split-with-.include vs pasted single file, reader fault injection, differential CLI vs in-memory reader",
            "Generated-input search over programs x include trees x reader faults: located diagnostics of the split program must equal those of the pasted file, failing includes must be reported on their path operand, the CLI must show/count the same items and terminate (CPU-time limit, not wall clock). Exploration.",
            "Trusts the in-memory reader's notion of 'already read' (by path) and the renderer's source map.", "5/C15"),
    "C18": ("property-based testing: differential between the CLI's output channels (compact, pretty, JSON, colour) and the library entry point, format parsers with strict shapes",
            "Generated-input search over single/multi-file programs written to disk and linted by the rva binary in 8 modes; items, order, counts, excerpts, markers and severities must agree between channels and with RVParser::run. Exploration.",
            "Trusts the harness's parsers of the three output formats.", "5/C18"),
    "C16": ("property-based testing with fault injection: CFG-level faults of 12 kinds injected into parse-clean generated programs",
            "Generated-input search: undefined/duplicate labels must be named at an occurrence; every other error that stops the analysis must be specific, attached to a user file and located. Exploration.",
            "Label definitions/uses are computed from the model, locations through the renderer's source map.", "5/C16"),
    "C19": ("property-based testing: round-trip and injectivity over dumps of real analyses and over generated single-fact mutations (all value variants, extreme offsets), own structural comparison",
            "Generated-input search: dump -> load -> field-by-field comparison with the live graph; generated facts of every variant replaced in the loaded structure, dumped, reloaded and compared; twin structures (same place and payload, different variant) must have different dumps. Exploration.",
            "Facts are replaced through the public NodeWrapper type (a CfgWrapper is a transparent sequence of them).", "5/C19"),
    "C17": ("property-based testing + exhaustive boundary enumeration against an own literal evaluator",
            "Boundaries of the 32-bit range +-2 (and 2^32..2^65) are enumerated over all notations, spellings and 11 operand sites; random 32-bit values, out-of-range magnitudes and malformed spellings are sampled. Exploration with an exhaustive boundary table.",
            "Trusts the harness's literal evaluator (spellings are built from known mathematical values).", "5/C17"),
}

NOT_YET = {
}

def main():
    props = [json.loads(l) for l in open(os.path.join(ROOT, "properties.jsonl"))]
    ids = [p["id"] for p in props]
    try:
        commits = subprocess.check_output(
            ["git", "-C", "/repo", "log", "--format=%H %s", "bbb3ffd..HEAD"], text=True).strip().splitlines()
    except Exception:
        commits = []
    hook_commits = [c.split()[0] for c in commits if c.split(" ", 1)[1].startswith("verif hooks")]
    checks = []
    for i in ids:
        if i not in CHECKS:
            continue
        tech, text, note, ref = CHECKS[i]
        checks.append({
            "property_id": i,
            "quick_cmd": f"./check {i} quick",
            "thorough_cmd": f"./check {i} thorough",
            "evidence_file": f"evidence/{i}.json",
            "replay_cmd_template": f"./check {i} replay {{path}}",
            "engine": "rvverif",
            "level_claimed": {"category": "exploration", "text": text, "design_ref": f"DESIGN.md section {ref}"},
            "level_note": note,
            "technique": tech + ("" if "libFuzzer" in tech else "; the thorough tier adds a coverage-guided libFuzzer campaign (cargo-fuzz target lint_choices: fuzz bytes -> choice sequence -> the same generator and oracle)"),
        })
    na = [{"property_id": i, "reason": NOT_YET.get(i, "check not built yet (work in progress; see DESIGN.md section 8 for the order of work)")}
          for i in ids if i not in CHECKS]
    m = {
        "version": 1,
        "setup_cmd": "./check setup",
        "hooks": {
            "guard": "--cfg rajanmaghera_riscv_analysis_verif",
            "enable": "harness/.cargo/config.toml sets build.rustflags = [\"--cfg\", \"rajanmaghera_riscv_analysis_verif\"]; ./check passes the same flag in RUSTFLAGS when it builds the rva binary",
            "baseline_off_cmd": "cd /repo && cargo test --workspace --no-fail-fast --offline",
            "source_commits": hook_commits,
            "add_only": True,
        },
        "engines": [
            {"name": "rvverif", "path": "harness", "serves_properties": [c["property_id"] for c in checks],
             "kind_free_text": "Rust crate: proptest-driven choice-sequence generators, reference tokenizer / literal evaluator / RV32IM interpreter as oracles, sharded over worker processes; writes evidence/<id>.json"},
        ],
        "checks": checks,
        "not_applicable": na,
        "notes": "All checks are generated-input searches against explicit oracles (property-based testing / fuzzing). Exit 2 = inconclusive/infrastructure, never printed as a violation. Known findings and fixed defects: known_findings.json.",
    }
    json.dump(m, open(os.path.join(ROOT, "MANIFEST.json"), "w"), indent=1)
    print(f"{len(checks)} checks, {len(na)} not applicable")

if __name__ == "__main__":
    main()
