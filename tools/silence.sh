#!/bin/sh
# Run every quick check with several seeds from fresh processes; print one line per run.
# usage: tools/silence.sh [seed...]   (default 2 3 7 11)
cd "$(dirname "$0")/.." || exit 2
seeds=${*:-2 3 7 11}
./check setup >/dev/null 2>&1 || { echo "setup failed"; exit 2; }
for seed in $seeds; do
  for n in 01 02 03 04 05 06 07 08 09 10 11 12 13 14 15 16 17 18 19; do
    out=$(VERIF_SEED=$seed ./check C$n quick 2>&1); code=$?
    echo "seed=$seed C$n exit=$code $(echo "$out" | grep -a -c '^VIOLATION') violation lines; $(echo "$out" | grep -a 'quick:' | tail -1)"
    echo "$out" | grep -a -E "^VIOLATION|sig=|died|inconclusive" | head -5
  done
done
echo finished
