main:
    jal     other
    li      ra, 0

other:
    addi    a0, a0, 1   # Error for unused value
    ret                 # There should not be an error here
