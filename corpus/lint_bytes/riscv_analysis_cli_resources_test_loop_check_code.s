main:
	li a0, 10
	li a1, 20 # unused
	li a2, 30 # unused
	jal func1
	li a7, 1
	ecall
	li a7, 10
	ecall


# args: a0, ret: a0
func1:
	addi sp, sp, -4
	sw s0, (sp)
	li s0, 32

	L1:
	beq zero, s0, L2

	addi sp, sp, -4
	sw s1, (sp)
	li s1, 64
	li s2, 39 # BAD --> overwriting
	add s1, s1, s0
	add s1, s1, a0 # Unused value
	lw s1, (sp)
	addi sp, sp, 4
	addi s0, s0, -1
	j L1
	
	L2: 
	mv a0, s0
	lw s0, (sp)
	addi sp, sp, 4
	ret


	