# heesss 

#     dj
    li a0, 1
    li a1, 2
    li t2, 2
    jal foo
    li a0, 2321
    add    t3 , ,,,  t2,    t4
    add t0, a0, a1
    jal bar
    li a7, 10
    ecall

bar:
    addi sp, sp, -4
    sw ra, (sp)
    sw s0, 4(sp)
    li s0, 2
    jal foo
    lw ra, (sp)
    lw s0, 4(sp)
    addi sp, sp, 4

    ret

foo:
    add a0, a0, a1
    ret

